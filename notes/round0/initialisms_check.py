# see README.md; run from a module dir containing go.mod `module example.com/m13` with MOQ=/path/to/moq
import itertools, re, subprocess, os
MOQ=os.environ.get("MOQ","moq")
INIT = ["ACL","API","ASCII","CPU","CSS","DNS","EOF","GUID","HTML","HTTP","HTTPS","ID","IP","JSON","LHS","QPS","RAM","RHS","RPC","SLA","SMTP","SQL","SSH","TCP","TLS","TTL","UDP","UI","UID","UUID","URI","URL","UTF8","VM","XML","XMPP","XSRF","XSS"]
names=set()
for w in INIT:
    opts=[(c.lower(),c.upper()) if c.isalpha() else (c,) for c in w]
    for combo in itertools.product(*opts): names.add("".join(combo))
names=sorted(names)
os.makedirs("src",exist_ok=True)
open("src/s.go","w").write("package src\n\ntype I interface {\n"+"".join(f"\tM{i}({n} int)\n" for i,n in enumerate(names))+"}\n")
out=subprocess.run([MOQ,"src","I"],capture_output=True,text=True); assert out.returncode==0, out.stderr[:300]
model=lambda n: n.upper() if n.upper() in INIT else n[0].upper()+n[1:]
bad=0
for i,n in enumerate(names):
    m=re.search(r"\t\tM%d \[\]struct \{\n\t\t\t// (\w+) is the (\w+) argument value\.\n\t\t\t(\w+) int"%i, out.stdout)
    if not m or m.group(3)!=model(n) or m.group(2)!=n: bad+=1; print("MISMATCH",n,m and m.groups())
print("checked",len(names),"bad",bad)
