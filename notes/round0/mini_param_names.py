import random, os, shutil, subprocess, sys
random.seed(int(sys.argv[1])); N=int(sys.argv[2])
ROOT="/tmp/exp/fz/n"; MOQ=os.environ.get("MOQ","/tmp/exp/moq")
names=["s","s1","s2","s3","n","n1","n2","b","b1","err","err1","fn","val","v","v1","ifaceVal","sOut","nOut","errOut","s1Out","sMoqParam","ioMoqParam","io","context","time","ctx","id","x","y","strings","ints","reader","readerMoqParam","sync","out","Out","in","_"]
types=["string","int","bool","error","io.Reader","context.Context","time.Duration","[]string","[]int","func()","struct{}","interface{}","map[string]int","chan int","*int","uint8","float64"]
res={"ok":0,"bad":0,"err":0}; fails=[]
for case in range(N):
    shutil.rmtree(ROOT,ignore_errors=True); os.makedirs(ROOT+"/src")
    open(ROOT+"/go.mod","w").write("module example.com/n\n\ngo 1.24\n")
    ms=[]
    for j in range(random.randint(1,5)):
        def plist(k, named, allow_blank=True):
            if not named: return [random.choice(types) for _ in range(k)]
            out=[];used=set()
            for _ in range(k):
                nm=random.choice(names)
                while nm!="_" and (nm in used or nm.lower() in {u.lower() for u in used}): nm=random.choice(names)
                used.add(nm); out.append(nm+" "+random.choice(types))
            return out
        ps=plist(random.randint(0,5), random.random()<0.7)
        variadic = ps and random.random()<0.2
        if variadic:
            last=ps[-1].split(" ")
            ps[-1]=(last[0]+" ..."+last[1]) if len(last)==2 else "..."+last[0]
        rs=plist(random.randint(0,3), random.random()<0.4)
        # param/result names must be distinct overall
        pn={p.split(" ")[0] for p in ps if " " in p}; 
        rs=[r for r in rs if not (" " in r and r.split(" ")[0]!="_" and r.split(" ")[0] in pn)]
        r = "" if not rs else (" ("+", ".join(rs)+")")
        ms.append(f"\tM{j}("+", ".join(ps)+")"+r)
    src='package src\n\nimport (\n\t"context"\n\t"io"\n\t"time"\n)\n\nvar (\n\t_ context.Context\n\t_ io.Reader\n\t_ time.Duration\n)\n\ntype I interface {\n'+"\n".join(ms)+"\n}\n"
    open(ROOT+"/src/s.go","w").write(src)
    v=subprocess.run(["go","vet","./src"],cwd=ROOT,capture_output=True,text=True)
    if v.returncode!=0: res["err"]+=1; continue
    flags=random.choice([[],["-stub"],["-stub","-with-resets"]])
    r=subprocess.run([MOQ,*flags,"-out","src/i_moq.go","src","I"],cwd=ROOT,capture_output=True,text=True)
    if r.returncode!=0: res["bad"]+=1; fails.append(("moqfail",flags,ms,r.stderr.splitlines()[0])); continue
    v=subprocess.run(["go","build","-gcflags=-e","./src"],cwd=ROOT,capture_output=True,text=True)
    if v.returncode!=0: res["bad"]+=1; fails.append(("nocompile",flags,ms,v.stderr.splitlines()[1:4]))
    else: res["ok"]+=1
print(res)
for f in fails[:12]: print(f)
