import random, os, shutil, subprocess, sys, itertools, json
random.seed(int(sys.argv[1]) if len(sys.argv)>1 else 1)
N=int(sys.argv[2]) if len(sys.argv)>2 else 40
ROOT="/tmp/exp/fz/w"
MOQ=os.environ.get("MOQ","/tmp/exp/moq")
segs=["a","b","a/b","b/a","v1","v2","app/v1","one/v1","onev1","x-y","xy","go-x","x.v2","x_y","deep/er/path"]
bases=["x","pkg","v1","v2","sync","io","template","errors","context","x-y","xy","x.v2"]
stds=["io","context","errors","sync","text/template","html/template","time"]
stdtype={"io":"io.Reader","context":"context.Context","errors":None,"sync":"*sync.WaitGroup","text/template":"*template.Template","html/template":"*template.Template","time":"time.Time"}
def ident(s):
    s=s.replace("-","").replace(".","").replace("_","")
    return s
res={"ok":0,"crash":0,"fmt":0,"novet":0,"other":0}
fails=[]
for case in range(N):
    shutil.rmtree(ROOT,ignore_errors=True); os.makedirs(ROOT)
    open(ROOT+"/go.mod","w").write("module example.com/w\n\ngo 1.24\n")
    k=random.randint(2,4)
    pk=[]
    used=set()
    while len(pk)<k:
        if random.random()<0.25:
            sp=random.choice([s for s in stds if stdtype[s]])
            if sp in used: continue
            used.add(sp); pk.append(("std",sp,sp.split("/")[-1])); continue
        d=random.choice(segs)+"/"+random.choice(bases)
        if d in used: continue
        used.add(d)
        name=random.choice([ident(d.split("/")[-1]), ident(d.split("/")[-1]), "pkg"])
        if name[0].isdigit(): name="p"+name
        pk.append(("w",d,name))
    for kind,d,name in pk:
        if kind=="w":
            os.makedirs(ROOT+"/"+d,exist_ok=True)
            open(ROOT+"/"+d+"/f.go","w").write(f"package {name}\n\ntype T struct{{}}\n")
    order=list(range(k)); random.shuffle(order)
    # transit package p
    os.makedirs(ROOT+"/p")
    imps=[];params=[]
    for i in order:
        kind,d,name=pk[i]
        path=d if kind=="std" else "example.com/w/"+d
        imps.append(f'\ti{i} "{path}"')
        ty = stdtype[d].replace(d.split("/")[-1]+".", f"i{i}.") if kind=="std" else f"i{i}.T"
        params.append(f"a{i} {ty}")
    methods = [f"\tM{j}({p})" for j,p in enumerate(params)] if random.random()<0.5 else ["\tM("+", ".join(params)+")"]
    open(ROOT+"/p/p.go","w").write("package p\n\nimport (\n"+"\n".join(imps)+"\n)\n\ntype I interface {\n"+"\n".join(methods)+"\n}\n")
    os.makedirs(ROOT+"/src")
    open(ROOT+"/src/s.go","w").write('package src\n\nimport "example.com/w/p"\n\ntype I interface{ p.I }\n')
    r=subprocess.run([MOQ,"-out","src/i_moq.go","src","I"],cwd=ROOT,capture_output=True,text=True)
    desc=[(d,n) for _,d,n in pk], order
    if r.returncode==2 or "fatal error" in r.stderr: res["crash"]+=1; fails.append(("crash",desc)); continue
    if r.returncode!=0:
        key="fmt" if "go/format" in r.stderr else "other"; res[key]+=1; fails.append((key,desc,r.stderr.splitlines()[0])); continue
    v=subprocess.run(["go","vet","./src"],cwd=ROOT,capture_output=True,text=True)
    if v.returncode!=0: res["novet"]+=1; fails.append(("novet",desc,v.stderr.splitlines()[:3]))
    else: res["ok"]+=1
print(res)
for f in fails[:25]: print(f)
