import random, os, shutil, subprocess, sys
random.seed(int(sys.argv[1])); N=int(sys.argv[2])
ROOT="/tmp/exp/fz/g"; MOQ=os.environ.get("MOQ","/tmp/exp/moq")
cons=["any","comparable","Str","other.M","other.C","Num","interface{ ~int | ~string }","interface{ ~[]byte }","other.Both","interface{ comparable; String() string }","*Local|int"]
uses=["{T}","*{T}","[]{T}","map[{K}]{T}","func({T}) {T}","other.G[{T}]","Box[{T}]","chan {T}","[2]{T}","struct{{ V {T} }}","map[string][]{T}"]
res={"ok":0,"bad":0,"err":0}; fails=[]
for case in range(N):
    shutil.rmtree(ROOT,ignore_errors=True); os.makedirs(ROOT+"/src"); os.makedirs(ROOT+"/other")
    open(ROOT+"/go.mod","w").write("module example.com/g\n\ngo 1.24\n")
    open(ROOT+"/other/o.go","w").write("package other\n\ntype M interface{ Do() }\ntype C interface{ ~int | ~string }\ntype Both interface{ ~int; String() string }\ntype G[X any] struct{ V X }\ntype T struct{}\n")
    k=random.randint(1,3); tn=random.sample(["T","K","V","E","TT","Elem"],k)
    tps=[]; 
    for n in tn:
        c=random.choice(cons)
        if c=="*Local|int": c="interface{ *Local | int }"
        tps.append(f"{n} {c}")
    ms=[]
    for j in range(random.randint(1,4)):
        def ty():
            u=random.choice(uses); T=random.choice(tn); K="string"
            return u.replace("{T}",T).replace("{K}",K).replace("{{","{").replace("}}","}")
        ps=[f"p{i} {ty()}" for i in range(random.randint(0,3))]
        rs=[ty() for _ in range(random.randint(0,2))]
        ms.append(f"\tM{j}("+", ".join(ps)+")"+("" if not rs else " ("+", ".join(rs)+")"))
    src='package src\n\nimport "example.com/g/other"\n\nvar _ other.T\n\ntype Local struct{}\ntype Str interface{ String() string }\ntype Num interface{ ~int | ~float64 }\ntype Box[X any] struct{ V X }\n\ntype I['+", ".join(tps)+'] interface {\n'+"\n".join(ms)+"\n}\n"
    open(ROOT+"/src/s.go","w").write(src)
    v=subprocess.run(["go","vet","./src"],cwd=ROOT,capture_output=True,text=True)
    if v.returncode!=0: res["err"]+=1; continue
    flags=random.choice([["-skip-ensure"],["-skip-ensure","-stub"],["-skip-ensure","-stub","-with-resets"]])
    other=random.random()<0.5
    if other:
        os.makedirs(ROOT+"/dst"); r=subprocess.run([MOQ,*flags,"-pkg","dst","-out","dst/i_moq.go","src","I"],cwd=ROOT,capture_output=True,text=True); tgt="./dst"
    else:
        r=subprocess.run([MOQ,*flags,"-out","src/i_moq.go","src","I"],cwd=ROOT,capture_output=True,text=True); tgt="./src"
    if r.returncode!=0: res["bad"]+=1; fails.append(("moqfail",flags,other,tps,r.stderr.splitlines()[0][:200])); continue
    v=subprocess.run(["go","build","-gcflags=-e",tgt],cwd=ROOT,capture_output=True,text=True)
    if v.returncode!=0: res["bad"]+=1; fails.append(("nocompile",flags,other,tps,ms,v.stderr.splitlines()[1:3]))
    else: res["ok"]+=1
print(res)
for f in fails[:14]: print(f)
