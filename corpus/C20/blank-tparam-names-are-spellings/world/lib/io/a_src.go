package io

type Options []byte

type User interface {
	~int | ~string
}

type Reader = Options

