package io

import (
	"example.com/w/db/models"
	"example.com/w/two"
	v1 "os"
	"sync"
)

type MyType interface {
	DoM5(s string) bool
}

// Handler is generated.
type Handler = interface {
	sync.Locker
	Process() (Reader, uint)
	Update(Id models.Node, opts [3][]int64, n2 any, n []error, ctx uint16, name map[two.Foo]chan<- uint16, s []string) (*v1.File, error)
	One(string, bool, bool, string, string, int, bool, string, int, bool)
	Handle(b1 int, err map[int]two.Reader) (r error)
}

