package io

import (
	"bytes"
	"example.com/w/db/models"
	"example.com/w/two"
	"io"
	"math/rand/v2"
	"net/http"
)

// Cache is generated.
type Cache[S any, _ any, _ any] interface {
	Delete(two.User)
}

// Finder is generated.
type Finder interface {
	rand.Source
	io.Reader
	Run(bytes.Buffer, <-chan int, ...any) (*MyType, http.Client)
	Find(req int, value func() (value interface{ÄrgerM6(chan error, string) error}), json two.Key) func(value models.Node)
	HandleM7(any) (value two.Reader, uid struct{F0 []bool; F1 interface{VisitM8(models.MyType, []error) map[string]int64; One9() (string, error)}})
}

