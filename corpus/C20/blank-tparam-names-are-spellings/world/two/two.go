package two

type User struct {
	A int
	B string
}

type Item int

func (x Item) String() string { return "" }

type Reader interface {
	HandleM2(x int) error
}

type Key interface {
	Reader
	DeleteM3(a, b string) (int, error)
}

type Foo interface {
	Reader
	OpenM4(a, b string) (int, error)
}

