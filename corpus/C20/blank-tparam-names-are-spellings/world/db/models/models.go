package models

type MyType struct {
	A int
	B string
}

type Node int

func (x Node) String() string { return "" }

type Struct interface {
	Exec1(x int) error
}

