package dep

type Client struct {
	A int
	B string
}

type Reader int

func (x Reader) String() string { return "" }

type Event interface {
	CloseM2(x int) error
}

type T3[K comparable, V any] map[K]V

type If = Client

type Thing string

type T map[string]int

