package one

type Item struct {
	A int
	B string
}

type Event int

func (x Event) String() string { return "" }

type User interface {
	Recv1(x int) error
}

