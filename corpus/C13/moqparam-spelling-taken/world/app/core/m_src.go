package core

import (
	"encoding/json"
	"example.com/w/a/one"
	http "example.com/w/dep"
	"io"
	b0 "net/http"
	"net/url"
	al "text/template"
	m "time"
)

type eventImpl[T any] interface {
	Two3(v T) (T, error)
}

type nodeImpl interface {
	~int | ~string
}

type Key interface {
	ThreeM4(s string) bool
}

type Bar int

func (x Bar) String() string { return "" }

// Queue is generated.
type Queue[V any] interface {
	Send(name Key, _ []m.Time, bytes []V, Ctx *map[uint64][]V, opts <-chan V) [4]struct{F0 V `json:"f0"`}
	Recv8(b0.Client) (map[int]map[json.Number][4]V, error)
	Close(http.Client, *one.Item, *Bar, http.T3[[1]http.Thing, V], V) <-chan V
	SaveM9(ints func(*func(), *url.URL) (float64, error), Http []<-chan [2]V, err func(func(map[io.ByteReader]http.Thing, al.Template) (V, interface{}), [][3]int64), syncMoqParam *V)
}

