package core

import (
	Context "context"
	"example.com/w/a/one"
	http "example.com/w/dep"
	"io"
	b0 "net/http"
	"os"
	m "time"
)

type Data int

func (x Data) String() string { return "" }

// Thing is generated.
type Thing interface {
	b0.Handler
	os.FileInfo
	Open() (r interface{}, Id *Bar)
	Load(ioMoqParam interface{Update5(map[m.Duration][]*io.ReadWriter, ...any) int; ProcessM6(ok int, r *http.If) struct{F0 one.User}}, io string, r http.T) (<-chan uint32, error)
	Send(bool, Data, map[chan<- complex128]*os.FileInfo, map[chan<- [1]*error]int) (string, http.If, error)
	Exec(rand http.Client, ip Key, s2 error, value uint) (b0.Request, interface{Context.Context; CreateM7() (ok func(int, uintptr), sOut error)}, error)
}

