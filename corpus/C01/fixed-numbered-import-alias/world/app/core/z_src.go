package core

