package core

import (
	v1 "example.com/w/a/b/x"
	std "example.com/w/two"
	m0 "io"
	x0 "net/http"
)

type T[T any] struct {
	V T
}

type Type int

func (x Type) String() string { return "" }

// Thing is generated.
type Thing[K any] interface {
	x0.ResponseWriter
	SaveM8(func(w K, s1 ...any), *v1.URL, K, *m0.Writer, K) (x *K, n *std.Request, ctx error)
	Get() (K, []K, error)
	find()
}

// Finder is generated.
type Finder = v1.Reader

