package core

import (
	v1 "example.com/w/a/b/x"
)

type readerImpl struct {
	A int
}

// Store is generated.
type Store = v1.Reader

