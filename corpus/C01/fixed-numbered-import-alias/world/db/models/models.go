package models

type Client struct {
	A int
	B string
}

type Event int

func (x Event) String() string { return "" }

type Data interface {
	One3(x int) error
}

type Item interface {
	~int | ~int64 | ~string
}

type Type string

