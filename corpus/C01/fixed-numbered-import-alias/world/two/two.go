package two

import (
	"example.com/w/db/models"
)

type Thing struct {
	A int
	B string
}

type Request int

func (x Request) String() string { return "" }

type T interface {
	LoadM5(x int) error
}

type Type = T

type Event func(int) error

type Data string

type Context interface {
	Delete6() models.Client
	Find7(v models.Client)
}

type Key struct {
	B []byte
	M map[string]int
}

