package x

type Foo struct {
	A int
	B string
}

type Value int

func (x Value) String() string { return "" }

type URL interface {
	Process1(x int) error
}

type Reader interface {
	URL
	Update2(a, b string) (int, error)
}

type Bar = URL

type Options interface {
	~int
	String() string
}

type Config string

type ID []string

type T = Foo

