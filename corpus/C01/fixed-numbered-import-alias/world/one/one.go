package one

type Key struct {
	A int
	B string
}

type Options int

func (x Options) String() string { return "" }

type Type interface {
	Put4(x int) error
}

type Client func(int) error

type Foo struct {
	B []byte
	M map[string]int
}

