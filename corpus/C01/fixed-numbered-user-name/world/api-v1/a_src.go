package api

import (
	a "example.com/w/pkg/util"
)

type Config[T any] interface {
	Do5(v T) (T, error)
}

type T []byte

type Context []byte

type dataImpl []byte

type URL []byte

// Repo is generated.
type Repo interface {
	Apply(_ string, s2 string, ctx chan string, _ string, _ string, b string, y ...any) (id string)
}

// Sink is generated.
type Sink = a.Client

