package x

type T struct {
	A int
	B string
}

type User int

func (x User) String() string { return "" }

type Client interface {
	Run4(x int) error
}

type Key struct {
	B []byte
	M map[string]int
}

type Value = T

type Request struct {
	B []byte
	M map[string]int
}

type Node struct {
	B []byte
	M map[string]int
}

