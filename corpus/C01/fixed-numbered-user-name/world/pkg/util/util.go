package util

type Bar struct {
	A int
	B string
}

type Options int

func (x Options) String() string { return "" }

type MyType interface {
	Update1(x int) error
}

type Event interface {
	~int | ~int64 | ~string
}

type Client interface {
	MyType
	Get2(a, b string) (int, error)
}

type ID []string

type User interface {
	MyType
	List3(a, b string) (int, error)
}

type Item func(int) error

