package x

type T struct {
	A int
	B string
}

type Item int

func (x Item) String() string { return "" }

type Context interface {
	GetM2(x int) error
}

type Type struct {
	B []byte
	M map[string]int
}

