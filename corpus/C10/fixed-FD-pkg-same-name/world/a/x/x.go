package x

type Type struct {
	A int
	B string
}

type Item int

func (x Item) String() string { return "" }

type Config interface {
	GetM1(x int) error
}

