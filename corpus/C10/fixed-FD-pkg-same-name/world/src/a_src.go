package src

type Client struct {
	A int
}

type tImpl interface {
	GetM4(s string) bool
}

type fooImpl struct {
	A int
}

type T interface {
	GetM5(s string) bool
}

// storeImpl is generated.
type storeImpl interface {
	GetM6()
	GetM7() (Client, bool)
}

