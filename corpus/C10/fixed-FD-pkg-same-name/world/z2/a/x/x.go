package x

type T struct {
	A int
	B string
}

type Type int

func (x Type) String() string { return "" }

type Item interface {
	GetM3(x int) error
}

type Foo struct {
	B []byte
	M map[string]int
}

type Config struct {
	B []byte
	M map[string]int
}

type Client struct {
	B []byte
	M map[string]int
}

