package errors

import (
	"example.com/w/x"
)

type Data struct {
	A int
	B string
}

type Client int

func (x Client) String() string { return "" }

type Node interface {
	Update10(x int) error
}

type Reader interface {
	Put11() x.Bar
	HandleM12(v x.Bar)
}

type Options = Node

