package yaml

type Bar struct {
	A int
	B string
}

type Type int

func (x Type) String() string { return "" }

type Value interface {
	RunM13(x int) error
}

type Thing func(int) error

