package x

type Bar struct {
	A int
	B string
}

type Item int

func (x Item) String() string { return "" }

type Type interface {
	SendM1(x int) error
}

type Client map[string]int

type User[T any] interface {
	Put2() T
	RunM3(v T, more ...T) error
}

type T string

type Data struct {
	B []byte
	M map[string]int
}

