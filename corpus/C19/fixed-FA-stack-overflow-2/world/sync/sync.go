package sync

import (
	typ "example.com/w/a/type"
)

type Event struct {
	A int
	B string
}

type URL int

func (x URL) String() string { return "" }

type Thing interface {
	Exec5(x int) error
}

type T interface {
	Send6() typ.User
	OpenM7(v typ.User)
}

type Options[T any] interface {
	List8() T
	Visit9(v T, more ...T) error
}

type Value struct {
	B []byte
	M map[string]int
}

type Foo = Event

type Config func(int) error

