package store

import (
	errors "example.com/w/errors"
	"example.com/w/sync"
	"example.com/w/yaml.v3"
	"net/http"
)

type userImpl[T any] interface {
	DeleteM14(v T) (T, error)
}

type Foo[T any] struct {
	V T
}

type Data func(string) error

// Queue is generated.
type Queue interface {
	run(value *yaml.Type, ok sync.T, r int, y http.Client) (*errors.Reader, error)
	Update16() (r errors.Reader, n chan complex64, req error)
	Put(req string)
}

