package store

