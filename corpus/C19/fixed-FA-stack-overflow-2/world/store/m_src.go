package store

import (
	"example.com/w/a/type"
	"example.com/w/sync"
	"example.com/w/x"
	Http "net/http"
	"os"
)

// Manager is generated.
type Manager interface {
	updateM15(ok Http.Client, id *x.Bar, r *os.FileMode, s2 map[sync.URL][4][]string, Ctx int16, x_1 typ.MyType, err ...any) error
}

