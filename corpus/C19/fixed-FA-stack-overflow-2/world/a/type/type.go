package typ

type User struct {
	A int
	B string
}

type Bar int

func (x Bar) String() string { return "" }

type Key interface {
	Load4(x int) error
}

type MyType string

