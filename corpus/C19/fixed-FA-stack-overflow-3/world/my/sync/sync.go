package sync

type Options struct {
	A int
	B string
}

type Bar int

func (x Bar) String() string { return "" }

type Thing interface {
	Delete1(x int) error
}

type Client map[string]int

type URL interface {
	Thing
	OneM2(a, b string) (int, error)
}

type ID func(int) error

