package http

type URL struct {
	A int
	B string
}

type Event int

func (x Event) String() string { return "" }

type Type interface {
	TwoM3(x int) error
}

