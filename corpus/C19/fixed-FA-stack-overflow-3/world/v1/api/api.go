package api

type Options struct {
	A int
	B string
}

type Request int

func (x Request) String() string { return "" }

type URL interface {
	RecvM5(x int) error
}

type Node struct {
	B []byte
	M map[string]int
}

type MyType = Options

type Item struct {
	B []byte
	M map[string]int
}

type Value[T any] struct {
	V T
}

