package http

type Node struct {
	A int
	B string
}

type MyType int

func (x MyType) String() string { return "" }

type Request interface {
	Handle4(x int) error
}

type Item struct {
	B []byte
	M map[string]int
}

type Config func(int) error

