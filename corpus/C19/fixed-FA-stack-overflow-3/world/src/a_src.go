package src

import (
	jsonpkg "encoding/json"
	"example.com/w/go-x"
	"example.com/w/my/sync"
	"example.com/w/v1/api"
	"example.com/w/z2/my/http"
)

type clientImpl int

func (x clientImpl) String() string { return "" }

// apiImpl is generated.
type apiImpl interface {
	Put() (y gox.MyType, s1 interface{}, x sync.Client)
	Put9(xml jsonpkg.Marshaler, ok *http.Node) error
	Do(...*api.Value[string]) (int16, func(key string, val ...sync.Client) error)
	List(int, complex128)
}

// Store is generated.
type Store interface {
}

