package gox

type Options struct {
	A int
	B string
}

type Foo int

func (x Foo) String() string { return "" }

type Item interface {
	GetM6(x int) error
}

type Context []string

type ID interface {
	~int | ~int64 | ~string
}

type Key interface {
	Item
	List7(a, b string) (int, error)
}

type Request[T any] struct {
	V T
}

type MyType struct {
	B []byte
	M map[string]int
}

type Event interface {
	Item
	Open8(a, b string) (int, error)
}

