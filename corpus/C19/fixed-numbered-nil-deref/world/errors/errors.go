package errors

type Client struct {
	A int
	B string
}

type Request int

func (x Request) String() string { return "" }

type ID interface {
	Three2(x int) error
}

type T interface {
	ID
	Put3(a, b string) (int, error)
}

type Foo interface {
	~int | ~int64 | ~string
}

type Node struct {
	B []byte
	M map[string]int
}

