package x

type Bar struct {
	A int
	B string
}

type Node int

func (x Node) String() string { return "" }

type T interface {
	Find6(x int) error
}

type Type struct {
	B []byte
	M map[string]int
}

