package svc

import (
	dep "example.com/w/errors"
	std "example.com/w/my/time"
	a0 "fmt"
	b "io"
	Rand "math/rand"
	httppkg "net/http"
	v1 "sync"
)

type Config[T any] struct {
	V T
}

// Queue is generated.
type Queue interface {
	RunM7(b.ReadWriter) (w string, value error, n *std.ID)
	Put8(string) (s error)
	Delete() (string, *Rand.Rand, error)
}

// Api is generated.
type Api[TT dep.Foo, K httppkg.ResponseWriter, S any] interface {
	Save9(any, S, TT, S, v1.WaitGroup, TT, TT) S
	Load10(S, []*a0.GoStringer, TT, ...any) (name func(*httppkg.Header) (ctx TT, s1 S))
	Put11(S, S) (r S)
}

