package svc

