package time

type T struct {
	A int
	B string
}

type ID int

func (x ID) String() string { return "" }

type Type interface {
	Open1(x int) error
}

