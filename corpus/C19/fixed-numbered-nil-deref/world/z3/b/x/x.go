package x

type ID struct {
	A int
	B string
}

type Foo int

func (x Foo) String() string { return "" }

type URL interface {
	Update5(x int) error
}

