package x

type Type struct {
	A int
	B string
}

type Options int

func (x Options) String() string { return "" }

type Reader interface {
	Visit4(x int) error
}

type Node string

type T func(int) error

type Client = Reader

type Item struct {
	B []byte
	M map[string]int
}

type Type3 interface {
	~int
	String() string
}

type Config string

