package sync

import (
	"example.com/w/my/http"
)

type Config struct {
	A int
	B string
}

type Foo int

func (x Foo) String() string { return "" }

type Reader interface {
	CreateM7(x int) error
}

type Bar = Config

type Request map[string]int

type ID interface {
	ProcessM8() http.T
	Send9(v http.T)
}

type URL interface {
	~int
	String() string
}

type MyType map[string]int

type Node[T any] struct {
	V T
}

