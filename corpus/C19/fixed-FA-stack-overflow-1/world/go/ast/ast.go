package ast

type Node struct {
	A int
	B string
}

type Type int

func (x Type) String() string { return "" }

type Foo interface {
	Load1(x int) error
}

type Options func(int) error

type Key[T any] interface {
	Close2() T
	ExecM3(v T, more ...T) error
}

type Options3 interface {
	~int | ~int64 | ~string
}

type T struct {
	B []byte
	M map[string]int
}

type Reader []string

