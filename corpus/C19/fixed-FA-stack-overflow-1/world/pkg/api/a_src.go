package api

import (
	"example.com/w/my/http"
	"example.com/w/sync"
	"fmt"
	"html/template"
	"io"
	"math/rand"
	"os"
	"strings"
)

type Reader int

func (x Reader) String() string { return "" }

type URL int

func (x URL) String() string { return "" }

// Store is generated.
type Store interface {
	Save(key *func(id [2]uint64) error, id map[float64]int32, data http.Event[string, struct{F0 *http.Item `json:"f0"`; F1 func() (error, error)}], n func(x interface{http.Node}) []string) (map[error]http.Item, []http.Node, float64)
	Create(id *strings.Reader, x sync.ID, key int8) error
}

// Backend is generated.
type Backend[T ~int | ~string, S any, K any] interface {
	GetM10() (data T)
	ExecM11(r func(http.Event[http.URL, template.Template], struct{F0 K}) (sync.Config, float32), _ T, s *fmt.GoStringer, v Reader) (key S, x_1 http.T, n2 <-chan interface{os.Signal})
	List12(Http sync.MyType, uid [4]map[[0]int]interface{io.Writer; Get13(int, S); Handle14() error}, _ [0]struct{}, xml K) ([]T, []T)
	Recv(data template.Template, s S, name chan T, ip T, Id S, y func() rand.Source)
}

// Repo is generated.
type Repo = http.Node

