package http

import (
	"example.com/w/go/ast"
)

type T struct {
	A int
	B string
}

type Client int

func (x Client) String() string { return "" }

type Node interface {
	CheckM4(x int) error
}

type URL = T

type Data[T any] struct {
	V T
}

type Event[K comparable, V any] map[K]V

type MyType interface {
	~int
	String() string
}

type Item interface {
	Get5() ast.Node
	PutM6(v ast.Node)
}

