package x

type T struct {
	A int
	B string
}

type Item int

func (x Item) String() string { return "" }

type Foo interface {
	GetM1(x int) error
}

