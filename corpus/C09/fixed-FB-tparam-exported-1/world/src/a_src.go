package src

import (
	"context"
	"example.com/w/a/x"
	"math/rand/v2"
	Sync "sync"
)

type tImpl[T any] interface {
	GetM3(v T) (T, error)
}

// storeImpl is generated.
type storeImpl[K any, Url any] interface {
	context.Context
	Three(struct{F0 string; F1 *Sync.WaitGroup}, []Url, func())
	Create() (id *x.Item, opts Url, v rand.Source)
}

