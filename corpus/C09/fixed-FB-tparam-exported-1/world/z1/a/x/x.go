package x

type T struct {
	A int
	B string
}

type Item int

func (x Item) String() string { return "" }

type Client interface {
	GetM2(x int) error
}

type Context func(int) error

