package src

type T struct {
	A int
}

type Item struct {
	A int
}

// Store is generated.
type Store[Url any, V any] interface {
	GetM1() (Url, Url)
}

