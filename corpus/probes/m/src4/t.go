package src4
type NotIface struct{}
type GenS[T any] struct{}
