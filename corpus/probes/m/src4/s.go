package src4

import "io"

type Local struct{}

type NoSrc interface {
	M(r io.Reader) error
}
type UsesSrc interface {
	M(l Local) *Local
}
type Emb interface {
	NoSrc
	UsesSrc2
}
type UsesSrc2 interface {
	N(f func(Local))
}
type Gen[T Cons, U any] interface {
	M(t T, u U) Local
}
type Cons interface{ ~int; String() string }
