package sync
type A struct{}
