package main

import "context"

type Runner interface{ Run(ctx context.Context, args ...string) (code int) }

func main() {}
