package src7

import al "example.com/m/q2/pkg"

type Z interface{ MZ(t al.T) }
