package src7

import al "example.com/m/q1/pkg"

type A interface{ MA(t al.T) }
type I interface {
	A
	Z
}
