package src6

import "example.com/m/other"

type I1[T interface{ other.A | other.B }] interface{ M(x T) }
type I2[T any] interface{ M(x other.G[T]) other.G[[]T] }
type I3[T any] = I2[T]
type I4 = I2[other.T]
type I5[K comparable, V any] interface { I2[V]; Get(k K) (V, bool) }
