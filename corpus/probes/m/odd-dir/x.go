package realname

type Thing struct{}
type Svc interface{ Do(t Thing) Thing }
