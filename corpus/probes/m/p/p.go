package p

import (
	"example.com/m/a/sync"
)

type I interface {
	M(a sync.A)
}
