package yaml
type Node struct{}
