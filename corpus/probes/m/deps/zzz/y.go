package yaml
type Node2 struct{}
