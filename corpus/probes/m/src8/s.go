package src8

import "example.com/m/deps/zzz"

type I interface{ M(n yaml.Node2) }
