package src3b

import (
	"example.com/m/p2"
)

type I interface {
	p2.I
}
