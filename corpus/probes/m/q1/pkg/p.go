package pkg
type T struct{}
