package src

import "example.com/m/other"

type Local struct{}

type G1[t any] interface {
	Get(x t) t
}
type G2[Id comparable] interface {
	Get(x Id) Id
}
type G3[T other.C] interface {
	Get(x T) T
}
type G4[T other.M, K comparable] interface {
	Get(x map[K]T) T
}
type G5[T ~int | ~string] interface {
	Get(x T) T
}
type G6[T interface{ ~[]E }, E any] interface {
	Get(x T) E
}
type G7[T interface{ *Local }] interface {
	Get(x T)
}
type G8[T int] interface {
	Get(x T)
}
type G9[T Local | int] interface {
	Get(x T)
}
