package src

import (
	"context"
	"io"
	"net/http"
	async "example.com/m/a/sync"
	bsync "example.com/m/b/sync"
)

type N1 interface {
	// names equal to package names / each other
	A(http string, io io.Reader, context context.Context, r *http.Request)
	B(mock int, callInfo string)
	C(s string, s1 string, _ string)
	D(a async.A, b bsync.B)
	E(sync int, x async.A)
	F(string, string, string) (string, error)
	G(s1 string, _ string, _ string)
	H(nOut int) (n int)
	I(x int) (x1 int, err error)
	J(f func(io.Reader) http.Handler, m map[async.A][]chan bsync.B, st struct{ X io.Writer }, i interface{ M(context.Context) })
	K(vals ...int)
	L(...string) error
	M(_ int, _ string)
	N(id string, Id int)
	O(url string, uRL int)
}
