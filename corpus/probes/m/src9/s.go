package src9

import "example.com/m/other"

type GA[T any] = other.G[T]
type LA[T any] = []T

type I interface {
	M(a GA[int], b GA[other.T], c **other.T, d struct {
		X int
		Y other.A
	}, e LA[other.B])
}
