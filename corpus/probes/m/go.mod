module example.com/m

go 1.24
