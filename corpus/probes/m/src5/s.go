package src5

import "unsafe"

type Ä struct{}
type e struct{}

type X1 interface{ M([]unsafe.Pointer) }
type X2 interface{ M(Ä) }
type X3 interface{ M(ñ int) }
type X4 interface{ M(e, *e, []e) }
type X5 interface{ M(_x int, _ int, x_ int, X int) }
type X6 interface{ M(a int, A string) }
type X7 interface{ M(string int, s string) }
type X8 interface{ M([][]string, map[string][]error, chan<- struct{}, <-chan func(), [2]*int, ...interface{}) }
type X9 interface{ M() (a, b int, _ string) }
type X10 interface{ M(nil int) }
type X11 interface{ M(len []int, append string, true bool) (int, error) }
