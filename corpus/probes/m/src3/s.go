package src3

import (
	"example.com/m/p"
)

type I interface {
	p.I
}
