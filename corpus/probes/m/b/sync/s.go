package sync
type B struct{}
