package p2

import (
	x1 "example.com/m/b-c/x"
	x2 "example.com/m/bc/x"
)

type I interface {
	M(a x1.T, b x2.U)
}
