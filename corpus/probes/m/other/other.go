package other

type T struct{}
type A int
type B string
type C interface{ ~int | ~string }
type M interface{ Do() }
type G[X any] struct{ V X }
