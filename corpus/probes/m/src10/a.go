package src10

import (
	"fmt"
	"io"

	. "example.com/m/other"
	_ "example.com/m/q1/pkg"
	tmpl "text/template"
	htmpl "html/template"
)

type Local struct{ T }

type I interface {
	io.ReadWriter
	fmt.Stringer
	error
	A(t T, g G[*T]) (A, B)
	B(s struct {
		T
		N int `json:"n"`
	}, f func(a A, rest ...B) (err error))
	C() (_ int, _ error)
	D(t *tmpl.Template, h *htmpl.Template)
	e(l Local) Local
}
