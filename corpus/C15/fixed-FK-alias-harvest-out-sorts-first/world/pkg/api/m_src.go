package api

import (
	os "example.com/w/c/a/b/x"
	a0 "os"
)

// Api is generated.
type Api interface {
	Check(p0 map[<-chan os.Options]int, n2 a0.File, w os.Options, data string)
}

