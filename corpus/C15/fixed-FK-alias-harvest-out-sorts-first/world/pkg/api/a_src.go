package api

import (
	"context"
	"example.com/w/c/a/b/x"
	templatepkg "html/template"
	os "text/template"
)

// Cache is generated.
type Cache interface {
	Check(string, [4][]int, int) map[x.Data]interface{context.Context; CloseM2(...any) (*os.FuncMap, error); Run3() (*templatepkg.FuncMap, float64)}
}

