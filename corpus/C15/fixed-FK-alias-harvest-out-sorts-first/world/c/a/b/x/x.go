package x

type Data struct {
	A int
	B string
}

type Options int

func (x Options) String() string { return "" }

type Reader interface {
	DoM1(x int) error
}

type User map[string]int

