module example.com/w

go 1.24
