package x

import (
	"example.com/w/errors"
)

type If struct {
	A int
	B string
}

type Item int

func (x Item) String() string { return "" }

type True interface {
	Send5(x int) error
}

type MyType interface {
	True
	ApplyM6(a, b string) (int, error)
}

type Ünit map[string]int

type Key = True

type Reader func(int) error

type Foo struct {
	B []byte
	M map[string]int
}

type ID interface {
	ProcessM7() errors.Options
	Save8(v errors.Options)
}

