package errors

type Options struct {
	A int
	B string
}

type User int

func (x User) String() string { return "" }

type Type interface {
	FindM1(x int) error
}

type Config = Options

type Byte interface {
	~int
	String() string
}

type Panic interface {
	~int
	String() string
}

type Any struct {
	Next *Any
}

type Ünit[T any] interface {
	Update2() T
	SaveM3(v T, more ...T) error
}

