package src

var ErrClosed error

