package src

import (
	"encoding/json"
	"example.com/w/errors"
	"example.com/w/x/v2"
	"net/url"
	v1 "os"
	"text/template"
)

func NewThing() {}

// service is generated.
type service = interface {
	Visit(interface{ThreeM9(err string) error}) (any, bool, template.Template)
	Recv(Ctx uint8, HTTP string, s ...int) x.Key
}

// Store is generated.
type Store[T x.MyType, _ any, _ any] interface {
	Send(ok uintptr, ctx func(url.URL, func(xml x.Foo)) T, opts T) (Äh interface{Close10([]uint)}, val x.Reader, name *json.Number)
	Get(n interface{DeleteM11(...*errors.Ünit[T]); Do12(_ v1.Signal)}, b T) error
}

