package x

type Panic struct {
	A int
	B string
}

type T int

func (x T) String() string { return "" }

type Int interface {
	Do4(x int) error
}

type Context = Int

type Event = Int

