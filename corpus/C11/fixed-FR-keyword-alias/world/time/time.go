package time

type Item struct {
	A int
	B string
}

type Data int

func (x Data) String() string { return "" }

type Key interface {
	SendM8(x int) error
}

type Event = Key

type Config string

type Thing struct {
	B []byte
	M map[string]int
}

type User map[string]int

type Context = Key

type Reader interface {
	~int | ~int64 | ~string
}

