package api

type Context struct {
	A int
	B string
}

type Type int

func (x Type) String() string { return "" }

type Foo interface {
	Exec1(x int) error
}

type Thing func(int) error

type Value[K comparable, V any] map[K]V

type Request string

type Event func(int) error

