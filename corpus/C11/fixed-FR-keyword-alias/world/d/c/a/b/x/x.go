package x

type Config struct {
	A int
	B string
}

type ID int

func (x ID) String() string { return "" }

type User interface {
	Apply10(x int) error
}

type Thing[T any] interface {
	Delete11() T
	Get12(v T, more ...T) error
}

type Bar struct {
	B []byte
	M map[string]int
}

type Item[K comparable, V any] map[K]V

type Reader interface {
	~int | ~int64 | ~string
}

type Client interface {
	~int | ~int64 | ~string
}

type MyType[T any] struct {
	V T
}

