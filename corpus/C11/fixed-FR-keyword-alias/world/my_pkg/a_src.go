package mypkg

type Node struct {
	A int
}

type URL int

func (x URL) String() string { return "" }

