package mypkg

import (
	url "context"
	sync "example.com/w/a/type"
	x "example.com/w/d/c/a/b/x"
	"example.com/w/time"
	v1 "example.com/w/v1/api"
	"io"
)

type clientImpl struct {
	A int
}

type iDImpl int

func (x iDImpl) String() string { return "" }

type User[T any] interface {
	Check13(v T) (T, error)
}

// Repo is generated.
type Repo = v1.Data

// Api is generated.
type Api interface {
	OneM14(y *sync.MyType, s url.CancelFunc) (time.Data, string)
	List(w x.User, b []uint8, _ []<-chan <-chan string)
	DeleteM15(y *io.ByteReader, val sync.Type, strings error, ok string) (string, sync.Request)
}

