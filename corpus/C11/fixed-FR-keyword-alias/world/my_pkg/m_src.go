package mypkg

import (
	sync "example.com/w/a/type"
	"example.com/w/go/ast"
	a "os"
)

// Sink is generated.
type Sink[V sync.User] interface {
	Apply()
	Save(ast.Thing, <-chan a.Signal, V, ast.Thing) (ifaceVal *ast.Thing)
}

