package ast

import (
	"example.com/w/k8s.io/api"
)

type T struct {
	A int
	B string
}

type Thing int

func (x Thing) String() string { return "" }

type Item interface {
	Send2(x int) error
}

type Key3 map[string]int

type User interface {
	ListM3() api.Context
	VisitM4(v api.Context)
}

type Reader[K comparable, V any] map[K]V

type Request[T any] struct {
	V T
}

