package api

type Value struct {
	A int
	B string
}

type Foo int

func (x Foo) String() string { return "" }

type Data interface {
	DoM9(x int) error
}

type Context struct {
	B []byte
	M map[string]int
}

