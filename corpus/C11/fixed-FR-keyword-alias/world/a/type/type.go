package typ

import (
	"example.com/w/k8s.io/api"
)

type Request struct {
	A int
	B string
}

type Type int

func (x Type) String() string { return "" }

type Reader interface {
	Send5(x int) error
}

type Config interface {
	CreateM6() api.Context
	Check7(v api.Context)
}

type Event = Request

type MyType = Reader

type User interface {
	~int | ~int64 | ~string
}

type Options func(int) error

