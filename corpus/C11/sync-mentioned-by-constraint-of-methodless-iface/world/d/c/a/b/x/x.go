package x

import (
	"context"
)

type Data struct {
	A int
	B string
}

type New int

func (x New) String() string { return "" }

type Bar interface {
	Check4(x int) error
}

type Event interface {
	Visit5() context.Context
	RecvM6(v context.Context)
}

type Ünit = Data

type Value interface {
	~int | ~int64 | ~string
}

type Thing func(Thing) Thing

type User = Data

