package sync

import (
	"bytes"
	"example.com/w/c/a/b/x"
	imp "example.com/w/d/c/a/b/x"
	dep0 "example.com/w/x"
	iopkg "io"
)

// Store is generated.
type Store interface {
	iopkg.ReadWriter
	Create(func(x_1 ...bool), string, int, float64) (ok []dep0.Ünit, a_b *struct{})
	Recv()
	Save() (chan<- bytes.Buffer, rune, error)
	Run(ctx <-chan *imp.Thing, ok any, y []x.Return, json ...any) (URL func())
}

