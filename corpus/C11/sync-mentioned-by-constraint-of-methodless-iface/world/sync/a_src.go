//
// Package doc in the bare-slash style.
//
package sync

import (
	a "sync"
)

type Config interface {
	~int | ~string
}

// Handler is generated.
type Handler[T1 a.Locker] interface {
}

