package sync

