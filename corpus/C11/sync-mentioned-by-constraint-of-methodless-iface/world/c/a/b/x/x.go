package x

import (
	imp0 "example.com/w/x"
	imp1 "example.com/w/d/c/a/b/x"
)

type Return struct {
	A int
	B string
}

type Foo int

func (x Foo) String() string { return "" }

type Item interface {
	ResetMissedCallsM7(x int) error
}

type Bar struct {
	B []byte
	M map[string]int
}

type Config interface {
	Put8(f func(imp0.Key) (imp1.Data, error)) error
}

type Thing interface {
	ResetStatsCallsM9() (x chan struct {
		A imp0.Key
		B imp1.Data
	}, y [2]imp1.Data)
}

type Type[T any] struct {
	V T
}

type URL = Return

