package x

import (
	"context"
)

type Key struct {
	A int
	B string
}

type Ünit int

func (x Ünit) String() string { return "" }

type Var interface {
	Ärger1(x int) error
}

type Node interface {
	Apply2() context.Context
	ÄrgerM3(v context.Context)
}

