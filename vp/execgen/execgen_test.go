package execgen

import (
	"os"
	"path/filepath"
	"strings"
	"testing"

	"pgregory.net/rapid"

	"verif/vp/core"
)

// TestGenBatch generates one shard of the batch of worlds of harness X (driven by cmd/vp).
func TestGenBatch(t *testing.T) {
	batch := os.Getenv("VP_BATCH_DIR")
	if batch == "" {
		t.Skip("VP_BATCH_DIR not set")
	}
	open := map[string]bool{}
	for _, f := range strings.Split(os.Getenv("VP_OPEN"), ",") {
		if f != "" {
			open[f] = true
		}
	}
	st := &BatchStats{Labels: map[string]int{}, Excl: map[string]int{}}
	defer WriteStats(st, filepath.Join(os.Getenv("VP_SHARD_DIR"), "batch.json"))
	env := core.EnvFromOS()
	if p := os.Getenv("VP_GEN_CASE"); p != "" {
		c, err := core.LoadCase(p)
		if err != nil {
			t.Fatal(err)
		}
		world := c.ModPath[strings.LastIndex(c.ModPath, "/")+1:]
		st.Generated++
		Process(env, c, batch, world, st)
		return
	}
	rapid.Check(t, Property(env, batch, os.Getenv("VP_SHARD"), open, st))
}
