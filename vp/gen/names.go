package gen

import (
	"fmt"
	"strings"
	"unicode"
	"unicode/utf8"
)

// Sanitiser is an independent statement of how an import path component is turned into (part of) a qualifier.
var Sanitiser = strings.NewReplacer("go-", "", "-go", "", "-", "", "_", "", ".", "", "@", "", "+", "", "~", "")

// SuffixNames lists every name a conflict resolution by "concatenate trailing path components" could produce for a path.
func SuffixNames(path string) []string {
	parts := strings.Split(path, "/")
	var out []string
	name := ""
	for i := len(parts) - 1; i >= 0; i-- {
		name = strings.ToLower(Sanitiser.Replace(parts[i])) + name
		out = append(out, name, "_"+name)
	}
	return out
}

// avoidRetroRenames (known finding F-S): when two imported packages end up with the same qualifier, moq renames
// them *after* parameter names were chosen, so a parameter spelled like the new alias is not re-checked. While
// the finding is open, parameters never carry a name such a rename could produce.
func (g *G) avoidRetroRenames() {
	if !g.Open["F-S"] {
		return
	}
	quals := map[string]map[*Pkg]bool{}
	add := func(q string, p *Pkg) {
		if quals[q] == nil {
			quals[q] = map[*Pkg]bool{}
		}
		quals[q][p] = true
	}
	for _, f := range g.files {
		for p, a := range f.Imports {
			add(p.Name, p)
			if a != "" {
				add(a, p)
			}
		}
	}
	add("sync", StdPkg("sync"))
	for _, dp := range g.deps {
		for _, d := range dp.Decls {
			for _, u := range d.Uses {
				add(u.Name, u)
			}
		}
	}
	forbidden := map[string]bool{}
	for _, ps := range quals {
		if len(ps) < 2 {
			continue
		}
		for p := range ps {
			for _, s := range SuffixNames(p.Path) {
				forbidden[s] = true
			}
		}
	}
	if len(forbidden) == 0 {
		return
	}
	predicted := predictedName
	for _, it := range g.ifaces {
		for _, m := range it.Methods {
			hit := false
			for i := range m.Sig.Params {
				p := &m.Sig.Params[i]
				if p.Name != "" && p.Name != "_" && forbidden[p.Name] {
					g.Excl["F-S"]++
					p.Name = fmt.Sprintf("p%d", i)
				}
				if (p.Name == "" || p.Name == "_") && forbidden[predicted(p.T)] {
					hit = true
				}
			}
			if hit {
				g.Excl["F-S"]++
				for i := range m.Sig.Params {
					m.Sig.Params[i].Name = fmt.Sprintf("p%d", i)
				}
			}
			for i := range m.Sig.Results {
				r := &m.Sig.Results[i]
				if r.Name != "" && forbidden[r.Name+"Out"] {
					r.Name = fmt.Sprintf("r%d", i)
				}
			}
		}
	}
}

// predictedName approximates the name moq derives for an unnamed parameter (only used to steer away from
// known findings; the oracles have their own model).
func predictedName(t *Ty) string {
	switch t.K {
	case KNamed:
		return LowerFirst(t.Name)
	case KPtr:
		return predictedName(t.Elem)
	case KSlice, KArray:
		if t.Elem.K == KBasic {
			return t.Elem.Name + "s"
		}
		return predictedName(t.Elem) + "s"
	case KBasic:
		switch t.Name {
		case "string":
			return "s"
		case "bool":
			return "b"
		case "error":
			return "err"
		case "float32", "float64":
			return "f"
		case "int", "int8", "int16", "int32", "int64", "rune":
			return "n"
		}
		return "v"
	case KFunc:
		return "fn"
	case KStruct:
		return "val"
	case KIface:
		return "ifaceVal"
	}
	return ""
}

// LowerFirst / UpperFirst change the case of the first rune.
func LowerFirst(s string) string {
	r, n := utf8.DecodeRuneInString(s)
	return string(unicode.ToLower(r)) + s[n:]
}

func UpperFirst(s string) string {
	r, n := utf8.DecodeRuneInString(s)
	return string(unicode.ToUpper(r)) + s[n:]
}
