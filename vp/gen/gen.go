package gen

import (
	"fmt"
	"sort"
	"strings"

	"pgregory.net/rapid"

	"verif/vp/core"
)

// Profile steers the distribution of one campaign.
type Profile struct {
	Name                string
	GenericPct          int // % of interfaces that are generic
	MinDeps             int
	MaxDeps             int
	StdPct              int  // % chance that a named-type draw picks a std package
	Conflict            bool // bias dependency paths towards colliding names
	AdvNames            bool // adversarial parameter name pools
	AdvNamesPct         int  // % of worlds that use the adversarial pools although AdvNames is off
	MaxIfaces           int
	MaxMethods          int
	MaxParams           int
	MaxResults          int
	MaxDepth            int
	EmbedPct            int
	AliasPct            int  // % chance a source import gets an alias
	DestOther           int  // % other-package destination
	DestTest            int  // % <src>_test destination
	DestSame            int  // % explicit -pkg <src name>
	OutFilePct          int  // % of cases using -out instead of stdout
	ExecSafe            bool // harness X: shapes the reflective driver can build values for
	InPlaceOnly         bool
	FmtDefault          bool   // only the default formatter
	MultiArgPct         int    // % of cases with >1 interface argument
	UnnamedPct          int    // % of signatures with unnamed parameters
	GopathPct           int    // % of worlds in GOPATH+vendor layout
	ModPath             string // module-relative import path prefix of the world (default example.com/w, own go.mod)
	GenericAliasBoost   int    // additional % of instantiated-generic interfaces declared as generic alias
	TwinPct             int    // additional % of worlds with a build-constrained twin interface
	HugePct             int    // % of interfaces with several hundred methods
	OtherNameAliasBoost int    // additional % of source aliases that are the name of another package in play
	BlankTParamBoost    int    // additional % of type parameters that are blank
	ForcedGroupBoost    int    // additional % of conflict worlds with a forced group of sanitise-equal same-named packages
	DiffAliasPct        int    // % of worlds with an extra source file importing used packages under other aliases
	MockLikeParamPct    int    // chance (per argument) of a mock type named like a parameter of the interface
	SameAliasPct        int    // % of aliased imports that reuse an alias another file gave to a DIFFERENT package
	LiteralAliasPct     int    // % of non-generic interfaces declared as alias of an interface literal
	NoDotBlank          bool   // no dot / blank imports in the source files
	UniqueAliases       bool   // never use one alias for two different paths (known finding F-K, harness F)
	ShadowPct           int    // % of signatures in which earlier parameters are named like the packages a later parameter type mentions
	Evolve              bool   // also render a second version of the source (first requested literal interface gains a method)
	MultiRefPct         int    // % bias towards dependency interfaces whose one method type mentions several same-named packages
}

func DefaultProfile() Profile {
	return Profile{Name: "default", GenericPct: 20, MinDeps: 0, MaxDeps: 4, StdPct: 40, MaxIfaces: 3, MaxMethods: 4, MaxParams: 4,
		MaxResults: 3, MaxDepth: 3, EmbedPct: 25, AliasPct: 25, DestOther: 25, DestTest: 10, DestSame: 8, OutFilePct: 10,
		MultiArgPct: 30, UnnamedPct: 40, LiteralAliasPct: 7, MockLikeParamPct: 4, DiffAliasPct: 6}
}

// G is one generation run.
type G struct {
	t      *rapid.T
	P      Profile
	Open   map[string]bool // open findings that must be avoided by construction
	Excl   map[string]int  // how often a draw was steered away, by finding
	labels map[string]bool

	modPath    string
	deps       []*Pkg
	src        *Pkg
	files      []*srcFile
	ifaces     []*Iface
	locals     []*Decl // local non-mocked declarations of the source package (Src text)
	topNames   map[string]bool
	declNames  map[string]bool // names of source-package declarations (subset of topNames)
	declFold   map[string]bool
	methSeq    int
	inPlace    bool
	gopath     bool          // GOPATH + vendor layout
	forceNamed bool          // current interface has a blank type parameter (named v, v1.. by moq): keep generated parameter names away (F-L)
	usedPkgs   map[*Pkg]bool // packages some generated type already mentions
	tparams    []tparam      // in scope while drawing a generic interface
	n          int
}

type tparam struct {
	Name string
	Cmp  bool
	Kind string
}

type srcFile struct {
	Name         string
	Imports      map[*Pkg]string // alias: "" none, "." dot, "_" blank, else name
	order        []*Pkg
	ifaces       []*Iface
	locals       []*Decl
	blank        []*Pkg
	header       string // comments in front of the package clause
	splitImports bool   // the first import gets a declaration of its own
}

// Iface is an interface of the source package that may be mocked.
type Iface struct {
	Name           string
	TParams        []TParamDecl
	Embeds         []*Ty
	Methods        []Meth
	LiteralAlias   bool // type Name = interface{ ... }: the methods belong to an interface literal
	AliasOf        *Ty  // type Name = T
	DefOf          *Ty  // type Name T (T an instantiated generic interface or named interface)
	AllMeths       map[string]bool
	file           int
	Exported       bool
	HardConstraint bool
}

type TParamDecl struct {
	Terms      []*Ty // inline union of named types: A | B, printed as interface{ A | B } when TermsIface
	TermsIface bool
	Name       string
	Con        *Ty    // constraint as a type (named or inline interface) — nil means use ConSrc
	ConSrc     string // literal constraint text when not expressible as Ty ("any", "comparable", "~int | ~string")
	Cmp        bool
	Kind       string
}

func (g *G) label(l string) { g.labels[l] = true }

// bits draws k fair bits. rapid's integer generators are deliberately biased towards small values
// and bounds, which would distort every weight in this file; rapid.Bool is a fair coin and shrinks to false.
func (g *G) bits(k int) int {
	v := 0
	for i := 0; i < k; i++ {
		v <<= 1
		if rapid.Bool().Draw(g.t, "b") {
			v |= 1
		}
	}
	return v
}

// Int draws (almost) uniformly from [lo, hi]; shrinks towards lo.
func (g *G) Int(lo, hi int) int {
	if hi <= lo {
		return lo
	}
	n := hi - lo + 1
	k := 3
	for 1<<(k-3) < n {
		k++
	}
	return lo + g.bits(k)%n
}

// Chance is true with probability pct/100; shrinks towards false.
func (g *G) Chance(pct int) bool {
	if pct <= 0 {
		return false
	}
	if pct >= 100 {
		return true
	}
	return 99-g.bits(7)*100/128 < pct
}
func (g *G) Pick(s []string) string { return s[g.Int(0, len(s)-1)] }

// pickList picks one of several string lists.
func (g *G) pickList(ls [][]string) []string { return ls[g.Int(0, len(ls)-1)] }

// excluded reports whether finding id is open; it counts the steering.
func (g *G) excluded(id string) bool {
	if g.Open[id] {
		g.Excl[id]++
		return true
	}
	return false
}

var depDirPool = []string{"testify/mock", "mock", "multivendor/api", "a/x", "b/x", "a/b/x", "c/a/b/x", "dep", "lib/dep", "util", "pkg/util", "x/v2", "x", "models", "api/models",
	"db/models", "one", "two", "three", "a/one", "b/one"}
var depDirConflict = []string{"testify/mock", "gomock/mock", "mock", "3rdparty/x", "2fa/api", "lib-go", "go-lib", "lib", "multivendor/api", "xvendor/dep", "a/x", "b/x", "a/b/x", "c/b/x", "c/a/b/x", "d/c/a/b/x", "b-c/x", "bc/x", "go-x", "x", "x-go", "x_y", "xy", "x.v2", "x/v2", "y/v2",
	"yaml.v3", "k8s.io/api", "api", "v1/api", "v2/api", "sync", "my/sync", "io", "my/io", "context", "my/context", "errors", "time",
	"my/time", "template", "my/template", "rand", "http", "my/http", "a/http", "b/http", "1x", "type", "a/type", "go/ast", "url"}

// package name for a dependency directory
func pkgNameForDir(dir string) string {
	base := dir[strings.LastIndex(dir, "/")+1:]
	switch {
	case base == "v2" && strings.Contains(dir, "/"):
		rest := dir[:strings.LastIndex(dir, "/")]
		return pkgNameForDir(rest)
	case base == "yaml.v3":
		return "yaml"
	case base == "x.v2":
		return "x"
	case base == "1x":
		return "onex"
	case base == "type":
		return "typ"
	case base == "go-x" || base == "x-go":
		return "x" // same package name, paths equal after sanitising
	case base == "lib-go" || base == "go-lib" || base == "l-ib":
		return "lib"
	case base == "x_" || base == "go-x-go":
		return "x"
	case dir == "b.c/x":
		return "x"
	}
	r := strings.NewReplacer("-", "", ".", "", "_", "")
	return r.Replace(base)
}

var typeNamePool = []string{"Mock", "CallInfo", "Ünit", "T", "Type", "Item", "Config", "Client", "ID", "URL", "Reader", "Context", "Node", "Thing", "Foo", "Bar", "Request",
	"Options", "Key", "Value", "Event", "User", "MyType", "Data"}

// type names whose de-capitalised form is a word the generated code needs (receiver, record variable, keywords,
// predeclared types): an unnamed parameter of such a type must not be named after it
var reservedStemTypes = []string{"Mock", "CallInfo", "String", "Int", "Func", "Map", "Range", "Select", "Default", "Bool", "Byte", "Uint8",
	"Float64", "Struct", "Interface", "Var", "Go", "If", "Type", "Chan", "Import", "Package", "Return", "Rune", "Uintptr", "Complex128"}

// ... and words moq's reserved list does not contain (known finding F-E, generated-name sibling)
var reservedStemTypesOpen = []string{"Error", "Any", "Nil", "Append", "Panic", "Len", "True", "New", "Make"}

var ifaceNamePool = []string{"Store", "Service", "Repo", "Doer", "Handler", "Backend", "Api", "Thing", "Reader", "Manager", "Cache", "Queue",
	"Worker", "Finder", "Sink", "ServerMock", "ClockMock", "Mock", "Überweisung", "Ärger", "Ñu"}
var methodNamePool = []string{"ResetMissedCalls", "ResetStatsCalls", "RESET", "ReSet", "Resets", "Reset", "ResetCalls", "Calls", "String", "Error", "Ärger", "Get", "Put", "Do", "Run", "Close", "Find", "Create", "Delete", "Update", "List", "Send", "Recv", "Handle",
	"Open", "Process", "Apply", "Check", "Load", "Save", "Visit", "Exec", "One", "Two", "Three"}
var tparamNames = []string{"T", "K", "V", "E", "S", "U", "TT", "Elem", "TKey", "T1", "T2"}
var tparamNamesOdd = []string{"t", "Id", "id", "elem", "k", "tKey", "Url"}

var idiomNames = []string{"ctx", "id", "name", "req", "w", "r", "err", "n", "s", "b", "ok", "key", "val", "x", "y", "data", "opts", "value"}
var genOutNames = []string{"s", "s1", "s2", "n", "n1", "n2", "fn", "val", "ifaceVal", "v", "err", "f", "b", "b1", "strings", "ints", "errs", "stringToInt", "intCh"}
var suffixNames = []string{"sMoqParam", "sOut", "nOut", "errOut", "ctxMoqParam", "s1Out", "bOut", "vOut", "ioMoqParam", "syncMoqParam"}
var oddNames = []string{"db", "Db", "DB", "ts", "Ts", "gid", "sip", "rtp", "amqp", "Amqp", "os", "io", "__", "___", "_1", "über", "Äh", "ñu", "日本", "x_1", "_x", "a1", "X_", "X", "Ctx", "aB", "a_b", "ID", "Id", "iD", "URL", "uRL", "Url", "http", "HTTP", "Http", "json", "xml", "uuid", "uid", "ip", "vm", "utf8", "Utf8"}
var reservedNames = []string{"mock", "callInfo", "string", "nil", "append", "panic", "int", "error", "any", "bool", "len", "true", "calls", "byte", "rune", "uint8", "int32", "float64", "uintptr", "comparable", "iota", "new", "make", "cap", "copy", "false"}

// New builds a generator bound to a rapid test.
func New(t *rapid.T, p Profile, open map[string]bool, excl map[string]int) *G {
	return &G{t: t, P: p, Open: open, Excl: excl, labels: map[string]bool{}, topNames: map[string]bool{}, declNames: map[string]bool{}, declFold: map[string]bool{}}
}

func (g *G) freshMethod() string {
	base := g.Pick(methodNamePool)
	g.methSeq++
	if g.Chance(50) {
		return fmt.Sprintf("%s%d", base, g.methSeq)
	}
	return fmt.Sprintf("%sM%d", base, g.methSeq)
}

func (g *G) freshTop(pool []string, exported bool) string {
	for i := 0; ; i++ {
		n := g.Pick(pool)
		if i > 3 {
			n = fmt.Sprintf("%s%d", n, g.Int(2, 99))
		}
		if !exported {
			n = LowerFirst(n)
			// F-L: a generated parameter name (t, item, ...) may capture an unexported local type of that name
			if g.excluded("F-L") {
				n += "Impl"
			}
		}
		if g.topNames[n] || IsKeyword(n) || Predeclared[n] {
			continue
		}
		if n == "mock" || n == "callInfo" {
			// F-Y: the receiver / the record variable of every generated method hides a type of that name
			if g.excluded("F-Y") {
				continue
			}
			g.label("local:named-like-receiver")
		}
		if g.declFold[strings.ToLower(n)] {
			if g.excluded("F-L") {
				continue
			}
			g.label("local:case-fold-dup")
		}
		g.topNames[n] = true
		g.declNames[n] = true
		g.declFold[strings.ToLower(n)] = true
		return n
	}
}

// ---------------------------------------------------------------- dependencies

func (g *G) genDeps() {
	n := g.Int(g.P.MinDeps, g.P.MaxDeps)
	pool := depDirPool
	if g.P.Conflict {
		pool = depDirConflict
	}
	used := map[string]bool{}
	sanit := map[string]bool{}
	repl := strings.NewReplacer("go-", "", "-go", "", "-", "", "_", "", ".", "", "@", "", "+", "", "~", "")
	// now and then: three packages of one name whose paths are equal after sanitising (last-resort numbered aliases)
	var forced []string
	if g.P.Conflict && g.Chance(10+g.P.ForcedGroupBoost) && !g.Open["F-A"] {
		forced = append(forced, g.pickList([][]string{{"go-lib", "lib", "lib-go"}, {"go-x", "x", "x-go"}, {"b-c/x", "bc/x", "b_c/x"},
			{"go-lib", "lib", "lib-go", "l-ib"}, {"go-x", "x", "x-go", "x_", "go-x-go"}, {"b-c/x", "bc/x", "b_c/x", "b.c/x"}})...)
		if n < len(forced)+1 {
			n = len(forced) + 1
		}
		g.label("import:sanitise-equal-triple")
		if len(forced) > 3 {
			g.label("import:sanitise-equal-quadruple")
		}
	}
	for len(g.deps) < n {
		dir := g.Pick(pool)
		if len(forced) > 0 {
			dir, forced = forced[0], forced[1:]
		}
		if used[dir] {
			dir = fmt.Sprintf("z%d/%s", len(g.deps), dir)
		}
		if used[dir] {
			continue
		}
		name := pkgNameForDir(dir)
		// F-A (a): two paths equal after moq's sanitiser; (b) a world package named like a single-segment std package.
		key := strings.ToLower(repl.Replace(dir))
		if sanit[key] {
			if g.excluded("F-A") {
				continue
			}
			g.label("import:sanitise-equal")
		}
		if sp := StdPkg(name); sp != nil && !strings.Contains(sp.Path, "/") {
			if g.excluded("F-A") {
				continue
			}
			g.label("import:std-shadow")
		}
		used[dir] = true
		sanit[key] = true
		p := &Pkg{Path: g.modPath + "/" + dir, Dir: dir, Name: name}
		if g.gopath && g.Chance(70) {
			// vendored third-party package: imported by its short path, stored under vendor/
			host := g.Pick([]string{"github.com/acme", "gopkg.in", "example.org/deps", "golang.org/x"})
			p.Path = host + "/" + dir
			p.Dir = "vendor/" + p.Path
			g.label("import:vendored")
		}
		g.genDepDecls(p)
		g.deps = append(g.deps, p)
	}
	names := map[string]int{}
	for _, p := range g.deps {
		names[p.Name]++
	}
	for _, c := range names {
		if c > 1 {
			g.label("import:same-name")
		}
	}
}

// genDepDecls draws the declarations of a dependency package.
func (g *G) genDepDecls(p *Pkg) {
	names := map[string]bool{}
	fresh := func() string {
		for i := 0; ; i++ {
			n := g.Pick(typeNamePool)
			if g.Chance(25) {
				n = g.Pick(reservedStemTypes)
				if g.Chance(25) {
					if g.excluded("F-E") {
						continue
					}
					n = g.Pick(reservedStemTypesOpen)
					g.label("type:predeclared-stem")
				}
				g.label("type:reserved-stem")
			}
			if i > 2 {
				n = fmt.Sprintf("%s%d", n, i)
			}
			if !names[n] {
				names[n] = true
				return n
			}
		}
	}
	add := func(d *Decl) *Decl { d.Exported = true; p.Decls = append(p.Decls, d); return d }
	// always one comparable struct, one int-like with String, one method interface
	scName := ""
	for _, o := range g.deps {
		if o.Name == p.Name && len(o.Decls) > 0 && g.Chance(60) {
			scName = o.Decls[0].Name // equally named packages tend to declare equally named types
			names[scName] = true
		}
	}
	if scName == "" {
		scName = fresh()
	}
	sc := add(&Decl{Name: scName, Cmp: true})
	sc.Src = fmt.Sprintf("type %s struct {\n\tA int\n\tB string\n}", sc.Name)
	ni := add(&Decl{Name: fresh(), Cmp: true, IntLike: true, Stringer: true})
	ni.Src = fmt.Sprintf("type %s int\n\nfunc (x %s) String() string { return \"\" }", ni.Name, ni.Name)
	m1 := g.freshMethod()
	i1 := add(&Decl{Name: fresh(), Cmp: true, Iface: true, Methods: []string{m1}})
	i1.Src = fmt.Sprintf("type %s interface {\n\t%s(x int) error\n}", i1.Name, m1)
	extra := g.Int(0, 6)
	for k := 0; k < extra; k++ {
		shape := g.Int(0, 19)
		if g.Chance(g.P.MultiRefPct) {
			shape = 14
		}
		switch shape {
		case 14, 15: // interface whose one method type mentions several other packages at once
			if len(g.deps) < 2 {
				continue
			}
			var others []*Pkg
			// prefer packages sharing a name
			first := g.deps[g.Int(0, len(g.deps)-1)]
			others = append(others, first)
			for _, o := range g.deps {
				if o != first && o.Name == first.Name && len(others) < 5 {
					others = append(others, o)
				}
			}
			for _, o := range g.deps {
				if len(others) < 2 && o != first {
					others = append(others, o)
				}
			}
			if len(others) < 2 {
				continue
			}
			ma := g.freshMethod()
			d := add(&Decl{Name: fresh(), Cmp: true, Iface: true, Methods: []string{ma}, Uses: others, MultiRef: true})
			var parts []string
			for _, o := range others {
				parts = append(parts, fmt.Sprintf("%%Q{%s}%s", o.Path, o.Decls[0].Name))
			}
			tmpl := g.Int(0, 2)
			if len(parts) > 3 {
				tmpl = 0 // the one shape that mentions all of them
			}
			switch tmpl {
			case 0:
				d.Src = fmt.Sprintf("type %s interface {\n\t%s(f func(%s) (%s, error)) error\n}", d.Name, ma, strings.Join(parts[:len(parts)-1], ", "), parts[len(parts)-1])
			case 1:
				d.Src = fmt.Sprintf("type %s interface {\n\t%s(m map[%s]%s) (r struct{ A []*%s })\n}", d.Name, ma, parts[0], parts[1], parts[len(parts)-1])
			default:
				d.Src = fmt.Sprintf("type %s interface {\n\t%s() (x chan struct {\n\t\tA %s\n\t\tB %s\n\t}, y [2]%s)\n}", d.Name, ma, parts[0], parts[1], parts[len(parts)-1])
			}
			g.label("dep:multi-ref-iface")
		case 19: // generic alias (go 1.24): the alias object keeps its own type arguments
			d := add(&Decl{Name: fresh(), Alias: true, NTParams: 1, TPCmp: []bool{false}})
			d.Src = fmt.Sprintf(g.Pick([]string{"type %s[T any] = []T", "type %s[T any] = map[string]T", "type %s[T any] = struct {\n\tV T\n}", "type %s[T any] = func(T) error"}), d.Name)
			g.label("dep:generic-alias-type")
		case 17, 18: // defined (non-interface) type whose underlying type mentions another package: only its NAME is printed
			var other *Pkg
			if len(g.deps) > 0 && g.Chance(60) {
				other = g.deps[g.Int(0, len(g.deps)-1)]
			} else {
				other = StdPkg(g.Pick([]string{"io", "context", "time", "net/http", "text/template"}))
			}
			od := other.Decls[0]
			d := add(&Decl{Name: fresh(), Uses: []*Pkg{other}})
			q := fmt.Sprintf("%%Q{%s}%s", other.Path, od.Name)
			d.Src = fmt.Sprintf(g.Pick([]string{"type %[1]s func(%[2]s) error", "type %[1]s func(string) (%[2]s, error)", "type %[1]s struct {\n\tF %[2]s\n}", "type %[1]s map[string]%[2]s", "type %[1]s []%[2]s", "type %[1]s chan %[2]s"}), d.Name, q)
			g.label("dep:defined-type-over-other-pkg")
		case 0:
			d := add(&Decl{Name: fresh()})
			d.Src = fmt.Sprintf("type %s struct {\n\tB []byte\n\tM map[string]int\n}", d.Name)
		case 1:
			d := add(&Decl{Name: fresh(), Cmp: true})
			d.Src = fmt.Sprintf("type %s string", d.Name)
		case 2:
			d := add(&Decl{Name: fresh()})
			d.Src = fmt.Sprintf("type %s func(int) error", d.Name)
		case 3:
			d := add(&Decl{Name: fresh()})
			d.Src = fmt.Sprintf("type %s []string", d.Name)
		case 4:
			d := add(&Decl{Name: fresh()})
			d.Src = fmt.Sprintf("type %s map[string]int", d.Name)
		case 5: // interface mentioning another package (transitive import)
			var other *Pkg
			var od *Decl
			if len(g.deps) > 0 && g.Chance(70) {
				other = g.deps[g.Int(0, len(g.deps)-1)]
				od = other.Decls[0]
			} else {
				other = StdPkg(g.Pick([]string{"io", "context", "time", "net/http", "text/template"}))
				od = other.Decls[0]
			}
			ma, mb := g.freshMethod(), g.freshMethod()
			d := add(&Decl{Name: fresh(), Cmp: true, Iface: true, Methods: []string{ma, mb}, Uses: []*Pkg{other}})
			d.Src = fmt.Sprintf("type %s interface {\n\t%s() %%Q{%s}%s\n\t%s(v %%Q{%s}%s)\n}", d.Name, ma, other.Path, od.Name, mb, other.Path, od.Name)
			g.label("dep:transitive-iface")
		case 6:
			d := add(&Decl{Name: fresh(), NTParams: 1, TPCmp: []bool{false}})
			d.Src = fmt.Sprintf("type %s[T any] struct {\n\tV T\n}", d.Name)
		case 7:
			d := add(&Decl{Name: fresh(), NTParams: 2, TPCmp: []bool{true, false}})
			d.Src = fmt.Sprintf("type %s[K comparable, V any] map[K]V", d.Name)
		case 8:
			ma, mb := g.freshMethod(), g.freshMethod()
			d := add(&Decl{Name: fresh(), Cmp: true, Iface: true, NTParams: 1, TPCmp: []bool{false}, Methods: []string{ma, mb}})
			d.Src = fmt.Sprintf("type %s[T any] interface {\n\t%s() T\n\t%s(v T, more ...T) error\n}", d.Name, ma, mb)
		case 9:
			d := add(&Decl{Name: fresh(), Constr: true})
			d.Src = fmt.Sprintf("type %s interface {\n\t~int | ~int64 | ~string\n}", d.Name)
		case 10:
			d := add(&Decl{Name: fresh(), Constr: true, Stringer: true})
			d.Src = fmt.Sprintf("type %s interface {\n\t~int\n\tString() string\n}", d.Name)
			d.IntLike = true // marks "mixed" constraint
		case 11:
			d := add(&Decl{Name: fresh(), Cmp: true, Alias: true})
			d.Src = fmt.Sprintf("type %s = %s", d.Name, sc.Name)
		case 12:
			d := add(&Decl{Name: fresh(), Cmp: true, Alias: true, Iface: true, Methods: i1.Methods})
			d.Src = fmt.Sprintf("type %s = %s", d.Name, i1.Name)
		case 16:
			d := add(&Decl{Name: fresh()})
			d.Src = fmt.Sprintf(g.Pick([]string{"type %[1]s map[string]%[1]s", "type %[1]s []%[1]s", "type %[1]s struct {\n\tNext *%[1]s\n}", "type %[1]s func(%[1]s) %[1]s"}), d.Name)
			g.label("dep:recursive-type")
		case 13:
			ma := g.freshMethod()
			d := add(&Decl{Name: fresh(), Cmp: true, Iface: true, Methods: append([]string{ma}, i1.Methods...)})
			d.Src = fmt.Sprintf("type %s interface {\n\t%s\n\t%s(a, b string) (int, error)\n}", d.Name, i1.Name, ma)
		}
	}
}

func renderDep(p *Pkg) string {
	var b strings.Builder
	fmt.Fprintf(&b, "package %s\n\n", p.Name)
	// imports
	imp := map[*Pkg]string{}
	var order []*Pkg
	usedNames := map[string]bool{p.Name: true}
	for _, d := range p.Decls {
		usedNames[d.Name] = true
	}
	for _, d := range p.Decls {
		for _, u := range d.Uses {
			if _, ok := imp[u]; ok {
				continue
			}
			alias := ""
			if usedNames[u.Name] || u.Name != lastElem(u.Path) {
				alias = fmt.Sprintf("imp%d", len(order))
				if !usedNames[u.Name] {
					alias = u.Name
				}
			}
			q := alias
			if q == "" {
				q = u.Name
			}
			usedNames[q] = true
			imp[u] = alias
			order = append(order, u)
		}
	}
	if len(order) > 0 {
		b.WriteString("import (\n")
		for _, u := range order {
			if imp[u] != "" {
				fmt.Fprintf(&b, "\t%s %q\n", imp[u], u.Path)
			} else {
				fmt.Fprintf(&b, "\t%q\n", u.Path)
			}
		}
		b.WriteString(")\n\n")
	}
	for _, d := range p.Decls {
		src := d.Src
		for _, u := range d.Uses {
			q := imp[u]
			if q == "" {
				q = u.Name
			}
			src = strings.ReplaceAll(src, "%Q{"+u.Path+"}", q+".")
		}
		b.WriteString(src + "\n\n")
	}
	return b.String()
}

func lastElem(p string) string { return p[strings.LastIndex(p, "/")+1:] }

// ---------------------------------------------------------------- types

type tyCtx struct {
	needCmp bool
	depth   int
}

// candidates for a named type draw
type namedCand struct {
	p *Pkg
	d *Decl
}

func (g *G) namedCands(needCmp bool) []namedCand {
	var cs []namedCand
	addPkg := func(p *Pkg, localAll bool) {
		for _, d := range p.Decls {
			if d.Constr || d.NonType != "" {
				continue
			}
			if needCmp && !d.Cmp && d.NTParams == 0 {
				continue
			}
			if needCmp && d.NTParams > 0 && !d.Iface {
				continue
			}
			if !d.Exported && !localAll {
				continue
			}
			cs = append(cs, namedCand{p, d})
		}
	}
	for _, p := range g.deps {
		addPkg(p, false)
	}
	if g.src != nil {
		addPkg(g.src, g.inPlace)
	}
	return cs
}

func (g *G) stdCands(needCmp bool) []namedCand {
	var cs []namedCand
	for _, p := range StdPkgs {
		if g.P.ExecSafe && (p.Path == "html/template" || p.Path == "text/template") {
			continue
		}
		for _, d := range p.Decls {
			if needCmp && !d.Cmp {
				continue
			}
			cs = append(cs, namedCand{p, d})
		}
	}
	return cs
}

func (g *G) named(c tyCtx) *Ty {
	var cs []namedCand
	if g.Chance(g.P.StdPct) {
		cs = g.stdCands(c.needCmp)
	} else {
		cs = g.namedCands(c.needCmp)
		if len(cs) == 0 {
			cs = g.stdCands(c.needCmp)
		}
	}
	nc := cs[g.Int(0, len(cs)-1)]
	if g.usedPkgs == nil {
		g.usedPkgs = map[*Pkg]bool{}
	}
	g.usedPkgs[nc.p] = true
	t := &Ty{K: KNamed, Name: nc.d.Name, Pkg: nc.p, Cmp: nc.d.Cmp}
	for i := 0; i < nc.d.NTParams; i++ {
		t.Args = append(t.Args, g.ty(tyCtx{needCmp: nc.d.TPCmp[i], depth: c.depth + 1}))
	}
	if nc.d.NTParams > 0 {
		g.label("type:instantiated")
		t.Cmp = nc.d.Iface
	}
	if nc.d.Alias {
		g.label("type:alias")
	}
	// pointers to non-comparable structs are the idiomatic spelling
	return t
}

func (g *G) basicTy(needCmp bool) *Ty {
	k := g.Int(0, 99)
	switch {
	case k < 22:
		return basic("string", true)
	case k < 42:
		return basic("int", true)
	case k < 52:
		return basic("bool", true)
	case k < 62:
		return basic("error", true)
	case k < 70:
		return basic("any", true)
	case k < 76:
		return basic("float64", true)
	default:
		return basic(g.Pick(basicCmp), true)
	}
}

func (g *G) ty(c tyCtx) *Ty {
	max := g.P.MaxDepth
	k := g.Int(0, 99)
	if len(g.tparams) > 0 && k < 25 {
		var ok []tparam
		for _, tp := range g.tparams {
			if !c.needCmp || tp.Cmp {
				ok = append(ok, tp)
			}
		}
		if len(ok) > 0 {
			tp := ok[g.Int(0, len(ok)-1)]
			return &Ty{K: KTParam, Name: tp.Name, Cmp: tp.Cmp}
		}
	}
	if c.depth >= max || k < 30 {
		return g.basicTy(c.needCmp)
	}
	if k < 62 {
		t := g.named(c)
		if !c.needCmp && g.Chance(25) {
			return &Ty{K: KPtr, Elem: t, Cmp: true}
		}
		return t
	}
	d := tyCtx{depth: c.depth + 1}
	switch g.Int(0, 9) {
	case 0:
		return &Ty{K: KPtr, Elem: g.ty(d), Cmp: true}
	case 1, 2:
		if c.needCmp {
			return &Ty{K: KArray, N: g.Int(0, 4), Elem: g.ty(tyCtx{needCmp: true, depth: c.depth + 1}), Cmp: true}
		}
		return &Ty{K: KSlice, Elem: g.ty(d)}
	case 3:
		e := g.ty(tyCtx{needCmp: c.needCmp, depth: c.depth + 1})
		n := g.Int(0, 4)
		if g.Chance(15) {
			// big by-value arrays (copied into the record)
			n = []int{64, 100, 4096}[g.Int(0, 2)]
			e = basic(g.Pick([]string{"byte", "int", "string"}), true)
			if n == 4096 && e.Name == "string" {
				e = basic("byte", true) // a channel element (and a few other things) must stay below 64 kB for the compiler
			}
			g.label("type:big-array")
		}
		return &Ty{K: KArray, N: n, Elem: e, Cmp: e.Cmp}
	case 4:
		if c.needCmp {
			return &Ty{K: KChan, Elem: g.ty(d), Dir: g.Int(0, 2), Cmp: true}
		}
		return &Ty{K: KMap, Key: g.ty(tyCtx{needCmp: true, depth: c.depth + 1}), Elem: g.ty(d)}
	case 5:
		return &Ty{K: KChan, Elem: g.ty(d), Dir: g.Int(0, 2), Cmp: true}
	case 6, 7:
		if c.needCmp {
			return g.basicTy(true)
		}
		s := g.sig(c.depth+1, true)
		return &Ty{K: KFunc, Sig: s}
	case 8:
		n := g.Int(0, 3)
		t := &Ty{K: KStruct, Cmp: true}
		seen := map[string]bool{}
		for i := 0; i < n; i++ {
			ft := g.ty(tyCtx{needCmp: c.needCmp, depth: c.depth + 1})
			f := Field{Name: fmt.Sprintf("F%d", i), T: ft}
			if ft.K == KNamed && len(ft.Args) == 0 && !seen[ft.Name] && ft.Pkg != nil && ft.Pkg.Path != "unsafe" && g.Chance(30) {
				f.Embedded = true
				f.Name = ft.Name
			}
			if seen[f.Name] {
				continue
			}
			seen[f.Name] = true
			if g.Chance(20) {
				f.Tag = fmt.Sprintf(`json:"f%d"`, i)
			}
			if !ft.Cmp {
				t.Cmp = false
			}
			t.Fields = append(t.Fields, f)
		}
		return t
	default:
		t := &Ty{K: KIface, Cmp: true}
		n := g.Int(0, 2)
		for i := 0; i < n; i++ {
			t.Methods = append(t.Methods, Meth{Name: g.freshMethod(), Sig: g.sig(c.depth+1, true)})
		}
		if g.Chance(30) {
			// embed a named method interface
			var cs []namedCand
			for _, nc := range append(g.namedCands(false), g.stdCands(false)...) {
				if nc.d.Iface && nc.d.NTParams == 0 {
					cs = append(cs, nc)
				}
			}
			if len(cs) > 0 {
				nc := cs[g.Int(0, len(cs)-1)]
				t.Embeds = append(t.Embeds, &Ty{K: KNamed, Name: nc.d.Name, Pkg: nc.p, Cmp: true})
			}
		}
		return t
	}
}

// ---------------------------------------------------------------- signatures

func (g *G) paramName(used map[string]bool, pos int) string {
	var n string
	if !g.P.AdvNames {
		k := g.Int(0, 9)
		switch {
		case k < 7:
			n = g.Pick(idiomNames)
		case k < 8:
			n = g.Pick(genOutNames)
		default:
			n = g.Pick(oddNames)
		}
	} else {
		switch g.Int(0, 8) {
		case 0, 1:
			n = g.Pick(idiomNames)
		case 2:
			n = g.Pick(genOutNames)
		case 3:
			n = g.Pick(suffixNames)
		case 4:
			n = g.Pick(oddNames)
		case 5:
			// a package name in play
			var names []string
			for _, p := range g.deps {
				names = append(names, p.Name)
			}
			names = append(names, "io", "context", "sync", "http", "template", "time", "rand", "fmt", "os", "url", "json", "bytes")
			n = g.Pick(names)
		case 6:
			ini := strings.ToLower(g.Pick(Initialisms))
			// random casing
			bs := []byte(ini)
			for i := range bs {
				if g.Chance(40) && bs[i] >= 'a' && bs[i] <= 'z' {
					bs[i] -= 32
				}
			}
			n = string(bs)
		case 7:
			n = g.Pick(reservedNames)
		case 8:
			// the name of a type the method may have to write unqualified
			var names []string
			for d := range g.declNames {
				names = append(names, d)
			}
			for _, tp := range g.tparams {
				names = append(names, tp.Name)
			}
			sort.Strings(names)
			if len(names) == 0 {
				names = idiomNames
			}
			n = g.Pick(names)
		}
	}
	return n
}

// foldKey is the record-field name moq derives (case-insensitive first letter / initialism).
func foldKey(n string) string {
	up := strings.ToUpper(n)
	for _, i := range Initialisms {
		if up == i {
			return i
		}
	}
	if n == "" {
		return ""
	}
	return UpperFirst(n)
}

func (g *G) okParamName(n string, used map[string]bool, fold map[string]bool) bool {
	if n == "" || IsKeyword(n) || used[n] {
		return false
	}
	if n == "_" {
		return true
	}
	if fold[foldKey(n)] {
		if g.excluded("F-F") {
			return false
		}
		g.label("param:case-fold-dup")
	}
	isReserved := n == "mock" || n == "callInfo" || Predeclared[n]
	if isReserved {
		if g.excluded("F-E") {
			return false
		}
		g.label("param:reserved-body-ident")
	}
	for _, tp := range g.tparams {
		if tp.Name == n {
			if g.excluded("F-L") {
				return false
			}
			g.label("param:tparam-name")
		}
	}
	// F-L: a user name equal to a local type name used unqualified (in place) captures it.
	if g.declNames[n] {
		if g.excluded("F-L") {
			return false
		}
		g.label("param:local-type-name")
	}
	return true
}

func (g *G) sig(depth int, inner bool) *Sig {
	s := &Sig{Group: g.Chance(50)}
	maxP := g.P.MaxParams
	if inner {
		maxP = 2
	}
	np := g.Int(0, maxP)
	if !inner && g.Chance(6) {
		np = g.Int(maxP, maxP+3)
	}
	named := !g.Chance(g.P.UnnamedPct) || (g.forceNamed && !inner)
	// long runs of same-typed unnamed parameters: numbered names beyond 9 (s10, s11, ...)
	manySame := !inner && !named && g.Chance(3)
	if manySame {
		np = g.Int(10, 13)
		g.label("sig:many-same-typed-unnamed")
	}
	used := map[string]bool{}
	fold := map[string]bool{}
	for i := 0; i < np; i++ {
		p := Param{T: g.ty(tyCtx{depth: depth})}
		if manySame {
			p.T = basic(g.Pick([]string{"string", "string", "int", "bool"}), true)
		}
		if named {
			for tries := 0; ; tries++ {
				n := g.paramName(used, i)
				if g.Chance(5) && !g.forceNamed {
					n = "_"
				}
				if g.forceNamed && len(n) > 0 && n[0] == 'v' && strings.Trim(n[1:], "0123456789") == "" {
					continue
				}
				if tries > 20 {
					n = fmt.Sprintf("p%d", i)
				}
				if inner && n != "_" && (n == "mock" || n == "callInfo" || Predeclared[n]) {
					continue
				}
				if g.okParamName(n, used, fold) {
					p.Name = n
					if n != "_" {
						used[n] = true
						fold[foldKey(n)] = true
					}
					break
				}
			}
		}
		s.Params = append(s.Params, p)
	}
	if named && !inner && np >= 2 && g.Chance(g.P.ShadowPct) {
		// earlier parameters named like the packages a later parameter's type mentions: the import is registered
		// after the names were chosen, so they must be renamed retroactively (all of them)
		j := np - 1
		// make the later parameter mention two different packages in one type (both imports arrive together)
		if g.Chance(60) {
			a, b := g.named(tyCtx{needCmp: true, depth: depth + 1}), g.named(tyCtx{depth: depth + 1})
			// prefer two packages nothing else mentions yet: only then are both imports registered *by this parameter*
			var fresh []namedCand
			for _, nc := range append(g.namedCands(true), g.stdCands(true)...) {
				if !g.usedPkgs[nc.p] && nc.p != g.src && nc.d.NTParams == 0 {
					fresh = append(fresh, nc)
				}
			}
			if len(fresh) >= 2 && g.Chance(70) {
				x := fresh[g.Int(0, len(fresh)-1)]
				y := fresh[g.Int(0, len(fresh)-1)]
				if x.p != y.p {
					a = &Ty{K: KNamed, Name: x.d.Name, Pkg: x.p, Cmp: true}
					b = &Ty{K: KNamed, Name: y.d.Name, Pkg: y.p, Cmp: y.d.Cmp}
					g.usedPkgs[x.p], g.usedPkgs[y.p] = true, true
					g.label("param:shadows-two-fresh-imports")
				}
			}
			if a.Pkg != b.Pkg {
				if g.Chance(50) {
					s.Params[j].T = &Ty{K: KMap, Key: a, Elem: b}
				} else {
					s.Params[j].T = &Ty{K: KFunc, Sig: &Sig{Params: []Param{{T: a}}, Results: []Param{{T: b}}}}
				}
			}
		}
		var pkgs []string
		seenP := map[string]bool{}
		s.Params[j].T.Walk(func(t *Ty) {
			if t.K == KNamed && t.Pkg != nil && t.Pkg != g.src && !seenP[t.Pkg.Name] {
				seenP[t.Pkg.Name] = true
				pkgs = append(pkgs, t.Pkg.Name)
			}
		})
		for i := 0; i < j && i < len(pkgs); i++ {
			n := pkgs[i]
			if !used[n] && !IsKeyword(n) && !Predeclared[n] && !g.declNames[n] && (!fold[foldKey(n)] || !g.Open["F-F"]) {
				delete(used, s.Params[i].Name)
				if old := s.Params[i].Name; old != "" && old != "_" {
					delete(fold, foldKey(old))
				}
				s.Params[i].Name = n
				used[n] = true
				fold[foldKey(n)] = true
				g.label("param:shadows-later-import")
			}
		}
		if len(pkgs) >= 2 && j >= 2 {
			g.label("param:shadows-two-later-imports")
		}
	}
	if named && !inner && np >= 2 && !g.Open["F-L"] && g.Chance(8) {
		// a parameter named like a source-package type which a LATER parameter mentions only as the type argument
		// of an instantiated generic type or generic alias
		var gens []namedCand
		for _, nc := range append(g.namedCands(false), g.stdCands(false)...) {
			if nc.d.NTParams == 1 && !nc.d.Iface && !nc.d.Constr && nc.d.NonType == "" {
				gens = append(gens, nc)
			}
		}
		var locals []*Decl
		for _, d := range g.locals {
			if d.NTParams == 0 && !d.Constr && d.NonType == "" && !d.Iface {
				locals = append(locals, d)
			}
		}
		if len(gens) > 0 && len(locals) > 0 {
			gn := gens[g.Int(0, len(gens)-1)]
			for _, c := range gens {
				if c.d.Alias && g.Chance(50) {
					gn = c // generic aliases keep their own type-argument list
				}
			}
			l := locals[g.Int(0, len(locals)-1)]
			j := np - 1
			i := g.Int(0, j-1)
			if (!gn.d.TPCmp[0] || l.Cmp) && s.Params[i].Name != "_" && !used[l.Name] && !IsKeyword(l.Name) && !Predeclared[l.Name] {
				s.Params[j].T = &Ty{K: KNamed, Name: gn.d.Name, Pkg: gn.p, Args: []*Ty{{K: KNamed, Name: l.Name, Pkg: g.src, Cmp: l.Cmp}}}
				delete(used, s.Params[i].Name)
				s.Params[i].Name = l.Name
				used[l.Name] = true
				fold = map[string]bool{}
				for _, p := range s.Params {
					fold[foldKey(p.Name)] = true
				}
				g.label("param:named-like-type-argument")
				if gn.d.Alias {
					g.label("param:named-like-generic-alias-argument")
				}
			}
		}
	}
	dupPct := 5
	if g.P.AdvNames {
		dupPct = 9
	}
	if named && !inner && np >= 2 && !g.Open["F-F"] && g.Chance(dupPct) {
		// two parameters whose record fields collide (id / Id -> ID) and, half of the time, the first numbered
		// name already taken by a third one (Id2)
		i := g.Int(0, np-2)
		j := g.Int(i+1, np-1)
		base := s.Params[i].Name
		if base != "" && base != "_" && s.Params[j].Name != "_" {
			v := UpperFirst(base)
			if v == base {
				v = LowerFirst(base)
			}
			if v != base && g.okParamName(v, used, map[string]bool{}) {
				delete(used, s.Params[j].Name)
				s.Params[j].Name = v
				used[v] = true
				g.label("param:case-fold-dup")
				if np >= 3 && g.Chance(70) {
					k := g.Int(0, np-1)
					third := v + "2"
					if g.Chance(50) {
						third = base + "2" // a different name that maps to the same numbered field
					}
					if k != i && k != j && s.Params[k].Name != "_" && g.okParamName(third, used, map[string]bool{}) {
						delete(used, s.Params[k].Name)
						s.Params[k].Name = third
						used[third] = true
						g.label("param:case-fold-dup-numbered-taken")
					}
				}
				fold = map[string]bool{}
				for _, p := range s.Params {
					fold[foldKey(p.Name)] = true
				}
			}
		}
	}
	if named && !inner && np >= 1 && !g.Open["F-E"] && !used["panic"] && g.Chance(3) {
		// a parameter named panic which could be called like the builtin
		i := g.Int(0, np-1)
		if s.Params[i].Name != "_" {
			delete(used, s.Params[i].Name)
			s.Params[i].Name = "panic"
			used["panic"] = true
			arg := Param{T: basic(g.Pick([]string{"string", "any", "interface{}"}), true)}
			fs := &Sig{Params: []Param{arg}}
			if g.Chance(30) {
				fs.Params[0].T = &Ty{K: KSlice, Elem: basic("any", true)}
				fs.Variadic = true
			}
			s.Params[i].T = &Ty{K: KFunc, Sig: fs}
			g.label("param:panic-callable")
		}
	}
	if named {
		// F-F also arises between a blank parameter's type-derived name and a user name (iD / Id -> ID)
		keys := map[string]int{}
		for i := range s.Params {
			n := s.Params[i].Name
			if n == "_" {
				n = predictedName(s.Params[i].T)
			}
			if n != "" {
				keys[foldKey(n)]++
			}
		}
		for i := range s.Params {
			if s.Params[i].Name != "_" {
				continue
			}
			if n := predictedName(s.Params[i].T); n != "" && keys[foldKey(n)] > 1 {
				if g.excluded("F-F") {
					s.Params[i].Name = fmt.Sprintf("p%d", i)
				} else {
					g.label("param:case-fold-dup")
				}
			}
		}
	}
	if np > 0 && g.Chance(18) {
		last := &s.Params[np-1]
		el := last.T
		anyPct := 25
		if g.P.ExecSafe {
			anyPct = 45 // `...any` is the one shape where a dropped `...` still compiles: keep it frequent where mocks are executed
		}
		variadicAny := false
		if g.Chance(anyPct) {
			el = basic("any", true)
			variadicAny = true
			g.label("sig:variadic-any")
		}
		defer func() {
			// ... and half of those without results (the two delegation branches of the template differ)
			if variadicAny && g.P.ExecSafe && !inner && len(s.Results) > 0 && g.Chance(50) {
				s.Results = nil
				g.label("sig:variadic-any-no-results")
			}
		}()
		last.T = &Ty{K: KSlice, Elem: el}
		s.Variadic = true
		g.label("sig:variadic")
	}
	if named && !inner && np >= 2 && g.Chance(10) {
		// neighbours of one (composite) type: written as a grouped declaration they share one type object
		i := g.Int(0, np-2)
		if !(s.Variadic && i+1 == np-1) && s.Params[i].Name != "_" && s.Params[i+1].Name != "_" {
			s.Params[i+1].T = s.Params[i].T
			s.Group = true
			g.label("sig:grouped-same-type")
		}
	}
	if !inner && np >= 2 && g.Chance(6) {
		// two equally shaped literal types over equally NAMED types of two equally named packages
		var pa, pb *Pkg
		var da, db *Decl
		for i, p := range g.deps {
			for _, o := range g.deps[i+1:] {
				if p.Name != o.Name {
					continue
				}
				for _, d1 := range p.Decls {
					for _, d2 := range o.Decls {
						if d1.Name == d2.Name && d1.NTParams == 0 && d2.NTParams == 0 && !d1.Constr && !d2.Constr && pa == nil {
							pa, pb, da, db = p, o, d1, d2
						}
					}
				}
			}
		}
		if pa != nil {
			i := g.Int(0, np-2)
			j := i + 1
			if !(s.Variadic && j == np-1) {
				// the same shape for both: draw once, apply twice
				shape := g.Int(0, 2)
				mk2 := func(p *Pkg, d *Decl) *Ty {
					n := &Ty{K: KNamed, Name: d.Name, Pkg: p, Cmp: d.Cmp}
					switch shape {
					case 0:
						return &Ty{K: KFunc, Sig: &Sig{Params: []Param{{T: n}}, Results: []Param{{T: basic("error", true)}}}}
					case 1:
						return &Ty{K: KStruct, Fields: []Field{{Name: "V", T: n}}, Cmp: d.Cmp}
					}
					return &Ty{K: KMap, Key: basic("string", true), Elem: n}
				}
				s.Params[i].T, s.Params[j].T = mk2(pa, da), mk2(pb, db)
				if g.usedPkgs == nil {
					g.usedPkgs = map[*Pkg]bool{}
				}
				g.usedPkgs[pa], g.usedPkgs[pb] = true, true
				g.label("sig:twin-literals-same-named-packages")
			}
		}
	}
	ctxFirst := false
	if !inner && np >= 1 && !s.Variadic || !inner && np >= 2 {
		if cp := StdPkg("context"); cp != nil && g.Chance(8) {
			// the idiomatic shape M(ctx context.Context, ...) error
			s.Params[0].T = &Ty{K: KNamed, Name: "Context", Pkg: cp, Cmp: true}
			if g.usedPkgs == nil {
				g.usedPkgs = map[*Pkg]bool{}
			}
			g.usedPkgs[cp] = true
			if named && s.Params[0].Name != "_" && !used["ctx"] {
				delete(used, s.Params[0].Name)
				s.Params[0].Name = "ctx"
				used["ctx"] = true
			}
			ctxFirst = true
			g.label("sig:context-first")
		}
	}
	maxR := g.P.MaxResults
	if inner {
		maxR = 2
	}
	nr := g.Int(0, maxR)
	if !inner && g.Chance(4) {
		nr = g.Int(maxR+1, maxR+4) // long result lists
		g.label("sig:many-results")
	}
	if ctxFirst && g.Chance(60) {
		nr = 1
	}
	rnamed := g.Chance(25)
	for i := 0; i < nr; i++ {
		r := Param{T: g.ty(tyCtx{depth: depth})}
		if i == nr-1 && (g.Chance(40) || ctxFirst) {
			r.T = basic("error", true)
		}
		if rnamed {
			for tries := 0; ; tries++ {
				n := g.paramName(used, i)
				if tries > 20 {
					n = fmt.Sprintf("r%d", i)
				}
				if n == "_" || (inner && (n == "mock" || n == "callInfo" || Predeclared[n])) {
					continue
				}
				if g.okParamName(n, used, fold) {
					r.Name = n
					used[n] = true
					break
				}
			}
		}
		s.Results = append(s.Results, r)
	}
	return s
}

// ---------------------------------------------------------------- source package

var srcDirPool = []string{"src", "pkg/api", "svc", "app/core", "store", "api-v1", "my_pkg", "src", "svc", "sync", "lib/io", "my/context", "time"}

func (g *G) genLocals() {
	add := func(d *Decl) { g.locals = append(g.locals, d); g.src.Decls = append(g.src.Decls, d) }
	defer func() {
		// package-level objects that are not types (arguments naming them must be handled, not crash)
		if !g.Chance(35) {
			return
		}
		var iface *Decl
		for _, d := range g.locals {
			if d.Iface && d.NTParams == 0 {
				iface = d
			}
		}
		for k := 0; k < 1+g.Int(0, 1); k++ {
			switch g.Int(0, 3) {
			case 0:
				if iface != nil {
					d := &Decl{Name: g.freshTop([]string{"Default", "Global", "Instance"}, true), NonType: "var-iface", Exported: true}
					d.Src = fmt.Sprintf("var %s %s", d.Name, iface.Name)
					add(d)
				}
			case 1:
				d := &Decl{Name: g.freshTop([]string{"ErrNotFound", "ErrClosed"}, true), NonType: "var-error", Exported: true}
				d.Src = fmt.Sprintf("var %s error", d.Name)
				add(d)
			case 2:
				d := &Decl{Name: g.freshTop([]string{"Helper", "NewThing"}, true), NonType: "func", Exported: true}
				d.Src = fmt.Sprintf("func %s() {}", d.Name)
				add(d)
			default:
				d := &Decl{Name: g.freshTop([]string{"MaxItems", "Version"}, true), NonType: "const", Exported: true}
				d.Src = fmt.Sprintf("const %s = 1", d.Name)
				add(d)
			}
		}
	}()
	if !g.P.ExecSafe && g.Chance(4+g.P.TwinPct) {
		// an interface whose method set depends on the build configuration: declared twice, in two files with
		// complementary build constraints. moq has to see what the go command sees by default.
		exported := !g.inPlace || g.Chance(60)
		tag := g.Pick([]string{"cgo", "linux", "amd64", "unix"})
		ma, mb := g.freshMethod(), g.freshMethod()
		d := &Decl{Name: g.freshTop(typeNamePool, exported), Cmp: true, Exported: exported, Iface: true, Methods: []string{ma, mb}}
		d.Src = fmt.Sprintf("type %s interface {\n\t%s(s string) bool\n\t%s() error\n}", d.Name, ma, mb)
		d.Twin = [2]string{tag, fmt.Sprintf("type %s interface {\n\t%s(s string) bool\n}", d.Name, ma)}
		add(d)
		g.label("local:build-constrained-twin")
	}
	n := g.Int(0, 5)
	for i := 0; i < n; i++ {
		exported := !g.inPlace || g.Chance(60)
		switch g.Int(0, 9) {
		case 0:
			d := &Decl{Name: g.freshTop(typeNamePool, exported), Cmp: true, Exported: exported}
			d.Src = fmt.Sprintf("type %s struct {\n\tA int\n}", d.Name)
			add(d)
		case 1:
			d := &Decl{Name: g.freshTop(typeNamePool, exported), Cmp: true, Exported: exported, IntLike: true, Stringer: true}
			d.Src = fmt.Sprintf("type %s int\n\nfunc (x %s) String() string { return \"\" }", d.Name, d.Name)
			add(d)
		case 2:
			d := &Decl{Name: g.freshTop(typeNamePool, exported), Exported: exported}
			d.Src = fmt.Sprintf("type %s []byte", d.Name)
			add(d)
		case 3:
			d := &Decl{Name: g.freshTop(typeNamePool, exported), Exported: exported, NTParams: 1, TPCmp: []bool{false}}
			d.Src = fmt.Sprintf("type %s[T any] struct {\n\tV T\n}", d.Name)
			add(d)
		case 4:
			d := &Decl{Name: g.freshTop(typeNamePool, exported), Exported: exported, Constr: true}
			d.Src = fmt.Sprintf("type %s interface {\n\t~int | ~string\n}", d.Name)
			add(d)
		case 5:
			m := g.freshMethod()
			d := &Decl{Name: g.freshTop(typeNamePool, exported), Cmp: true, Exported: exported, Iface: true, Methods: []string{m}}
			d.Src = fmt.Sprintf("type %s interface {\n\t%s(s string) bool\n}", d.Name, m)
			add(d)
		case 6:
			d := &Decl{Name: g.freshTop(typeNamePool, exported), Exported: exported}
			d.Src = fmt.Sprintf("type %s func(string) error", d.Name)
			add(d)
		case 8:
			// an alias declared in the source package (the alias object lives here, its target may not)
			var target *Decl
			for _, d := range g.locals {
				if !d.Iface && !d.Constr && d.NTParams == 0 && d.NonType == "" && !d.Alias {
					target = d
				}
			}
			if target != nil {
				d := &Decl{Name: g.freshTop(typeNamePool, exported && target.Exported), Exported: exported && target.Exported, Cmp: target.Cmp, Alias: true}
				d.Src = fmt.Sprintf("type %s = %s", d.Name, target.Name)
				add(d)
				g.label("local:alias")
			}
		case 9:
			// recursive named types
			d := &Decl{Name: g.freshTop(typeNamePool, exported), Exported: exported}
			d.Src = fmt.Sprintf(g.Pick([]string{"type %[1]s map[string]%[1]s", "type %[1]s []%[1]s", "type %[1]s struct {\n\tNext *%[1]s\n}", "type %[1]s func(%[1]s) %[1]s", "type %[1]s chan %[1]s"}), d.Name)
			add(d)
			g.label("local:recursive-type")
		case 7:
			d := &Decl{Name: g.freshTop(typeNamePool, exported), Exported: exported, Cmp: true, Iface: true, NTParams: 1, TPCmp: []bool{false}}
			ma := g.freshMethod()
			d.Methods = []string{ma}
			d.Src = fmt.Sprintf("type %s[T any] interface {\n\t%s(v T) (T, error)\n}", d.Name, ma)
			add(d)
		}
	}
}

func (g *G) ifaceCands(generic bool) []namedCand {
	var cs []namedCand
	for _, nc := range append(g.namedCands(false), g.stdCands(false)...) {
		if nc.d.Iface && (nc.d.NTParams > 0) == generic {
			cs = append(cs, nc)
		}
	}
	return cs
}

func (g *G) genTParams(skipEnsure bool) ([]TParamDecl, bool) {
	n := g.Int(1, 3)
	var tps []TParamDecl
	hard := false
	usedN := map[string]bool{}
	for i := 0; i < n; i++ {
		var name string
		for {
			name = g.Pick(tparamNames)
			if g.Chance(12) {
				name = g.Pick(tparamNamesOdd)
				if name[0] >= 'a' && name[0] <= 'z' && g.excluded("F-L") {
					continue // a generated parameter name may equal a lower-case type parameter
				}
				if foldKey(name) != name {
					if g.excluded("F-B") {
						continue
					}
					g.label("tparam:exported-differs")
				}
			}
			if g.Chance(8) {
				// the name moq would generate for a BLANK type parameter constrained by one of the world's
				// constraint types: a later blank parameter of that constraint then wants the same name
				var cn []string
				for _, p := range append(append([]*Pkg{}, g.deps...), g.src) {
					for _, d := range p.Decls {
						if (d.Constr || d.Iface) && d.NTParams == 0 && d.Exported {
							cn = append(cn, LowerFirst(d.Name))
						}
					}
				}
				if len(cn) > 0 {
					name = cn[g.Int(0, len(cn)-1)]
					if IsKeyword(name) || Predeclared[name] || name == "mock" || name == "callInfo" || g.excluded("F-L") {
						continue
					}
					g.label("tparam:named-like-generated-name")
				}
			}
			if !usedN[name] && !g.topNames[name] {
				break
			}
		}
		usedN[name] = true
		tp := TParamDecl{Name: name}

		k := g.Int(0, 13)
		if g.P.ExecSafe && (k == 7 || k == 8 || k >= 10) {
			k = g.Int(0, 6) // the reflective driver needs witness type arguments it can spell: any / comparable / unions only
		}
		hardKind := func() bool {
			// F-C: the self-check instantiation is invalid for these constraints
			if !skipEnsure {
				if g.excluded("F-C") {
					return false
				}
			}
			hard = true
			return true
		}
		switch {
		case k <= 3:
			tp.ConSrc, tp.Kind = "any", "any"
		case k == 4:
			if hardKind() {
				tp.ConSrc, tp.Kind, tp.Cmp = "comparable", "comparable", true
			} else {
				tp.ConSrc, tp.Kind = "any", "any"
			}
		case k == 5:
			tp.ConSrc, tp.Kind, tp.Cmp = "~int | ~string", "union-inline", true
			if g.Chance(35) {
				tp.ConSrc, tp.Kind = "interface{ comparable; ~int | ~string }", "element-then-union"
			} else if g.Chance(30) {
				// unions whose first term is a composite type (the explicit self-check spells that term)
				comp := []struct {
					src string
					cmp bool
				}{{"[]byte | []string", false}, {"interface{ *int | *string }", true}, {"[4]byte | [8]byte", true}, {"chan int | chan string", true},
					{"map[string]int | map[string]bool", false}, {"~[]byte | ~[]rune", false}, {"interface{ ~*int | ~*int64 }", true}}
				c := comp[0]
				if !g.P.ExecSafe {
					c = comp[g.Int(0, len(comp)-1)]
				}
				tp.ConSrc, tp.Kind, tp.Cmp = c.src, "union-inline-composite", c.cmp
			}
		case k == 6:
			tp.ConSrc, tp.Kind, tp.Cmp = "int | string | float64", "union-inline", true
			// named (non-interface) types as union terms: their packages must be imported and qualified
			var named []namedCand
			for _, pk := range append(append([]*Pkg{}, g.deps...), g.src) {
				for _, d := range pk.Decls {
					if d.IntLike && !d.Constr && !d.Iface && d.NTParams == 0 && d.Exported {
						named = append(named, namedCand{pk, d})
					}
				}
			}
			if len(named) > 0 && g.Chance(60) && !g.excluded("F-I") && hardKind() {
				a := named[g.Int(0, len(named)-1)]
				term := func(nc namedCand) *Ty {
					t := &Ty{K: KNamed, Name: nc.d.Name, Pkg: nc.p, Cmp: true}
					switch g.Int(0, 7) {
					case 0: // ~[]pkg.T
						return &Ty{K: KBasic, Name: "~[]" + "\x00", Elem: t}
					case 1: // ~map[string]pkg.T
						return &Ty{K: KBasic, Name: "~map[string]" + "\x00", Elem: t}
					case 2: // named KEY type, basic element
						return &Ty{K: KBasic, Name: "~map[\x00]string", Elem: t}
					case 3:
						return &Ty{K: KBasic, Name: g.Pick([]string{"~[2]\x00", "~chan \x00", "[]*\x00", "map[\x00]bool", "~func(\x00) int"}), Elem: t}
					}
					return t
				}
				tp.Terms = []*Ty{term(a)}
				if b := named[g.Int(0, len(named)-1)]; b != a {
					tp.Terms = append(tp.Terms, term(b))
				}
				tp.TermsIface = g.Chance(50)
				tp.ConSrc, tp.Kind = "", "union-inline-named"
				for _, t := range tp.Terms {
					if t.K != KNamed {
						tp.Cmp = false // ~[]T / ~map[..]T terms are not comparable
					}
				}
			}
		case k == 7 || k == 8:
			// named method interface as constraint
			cs := g.ifaceCands(false)
			nc := cs[g.Int(0, len(cs)-1)]
			tp.Con, tp.Kind = &Ty{K: KNamed, Name: nc.d.Name, Pkg: nc.p}, "method-iface"
		case k == 9:
			// named union constraint
			var cs []namedCand
			for _, p := range append(append([]*Pkg{}, g.deps...), g.src) {
				for _, d := range p.Decls {
					if d.Constr && !d.Stringer && (d.Exported) {
						cs = append(cs, namedCand{p, d})
					}
				}
			}
			if len(cs) == 0 {
				tp.ConSrc, tp.Kind, tp.Cmp = "~int | ~int64", "union-inline", true
			} else {
				nc := cs[g.Int(0, len(cs)-1)]
				tp.Con, tp.Kind, tp.Cmp = &Ty{K: KNamed, Name: nc.d.Name, Pkg: nc.p}, "union-named", true
			}
		case k == 10:
			// mixed constraint
			if hardKind() {
				tp.ConSrc, tp.Kind, tp.Cmp = "interface{ ~int; String() string }", "mixed", true
				switch g.Int(0, 3) {
				case 0: // comparable plus methods: not a method set, yet it has methods
					tp.ConSrc, tp.Kind = g.Pick([]string{"interface{ comparable; String() string }", "interface{ comparable; error }", "interface{ String() string; comparable }"}), "mixed-comparable"
				case 2: // a type set plus a method whose signature mentions an imported package
					if iop := StdPkg("io"); iop != nil {
						tmpl := g.Pick([]string{"interface{ comparable; WriteKey(w \x00) (int, error) }", "interface{ ~int | ~string; EncodeTo(w \x00) error }", "interface{ ~[]byte; WriteTo(w \x00) (int64, error) }"})
						tp.Terms = []*Ty{{K: KBasic, Name: tmpl, Elem: &Ty{K: KNamed, Name: "Writer", Pkg: iop, Cmp: true}}}
						tp.ConSrc, tp.Kind = "", "mixed-method-mentions-import"
						if strings.Contains(tmpl, "[]byte") {
							tp.Cmp = false
						}
					}
				case 1: // a named type-set constraint plus a method
					var cs []namedCand
					for _, p := range append(append([]*Pkg{}, g.deps...), g.src) {
						for _, d := range p.Decls {
							if d.Constr && d.Exported {
								cs = append(cs, namedCand{p, d})
							}
						}
					}
					if len(cs) > 0 {
						nc := cs[g.Int(0, len(cs)-1)]
						tp.Terms = []*Ty{{K: KBasic, Name: "interface{ \x00; String() string }", Elem: &Ty{K: KNamed, Name: nc.d.Name, Pkg: nc.p, Cmp: true}}}
						tp.ConSrc, tp.Kind = "", "mixed-named-typeset"
					}
				}
			} else {
				tp.ConSrc, tp.Kind = "any", "any"
			}
		case k == 11:
			if i > 0 && tps[0].Name != "_" && hardKind() {
				tp.ConSrc, tp.Kind = "~[]"+tps[0].Name, "param-dependent"
			} else {
				tp.ConSrc, tp.Kind = "any", "any"
			}
		case k == 12:
			// constrained in terms of itself (inline)
			if hardKind() {
				tp.ConSrc, tp.Kind = fmt.Sprintf("interface{ Children%d() []%s }", i, name), "self-referential"
			} else {
				tp.ConSrc, tp.Kind = "any", "any"
			}
		case k == 13:
			// constrained in terms of itself / the previous parameter through a generic interface
			cs := g.ifaceCands(true)
			var one []namedCand
			for _, nc := range cs {
				if nc.d.NTParams == 1 {
					one = append(one, nc)
				}
			}
			if len(one) > 0 && hardKind() {
				nc := one[g.Int(0, len(one)-1)]
				arg := name
				if i > 0 && tps[i-1].Name != "_" && g.Chance(50) {
					arg = tps[i-1].Name
				}
				tp.Con, tp.Kind = &Ty{K: KNamed, Name: nc.d.Name, Pkg: nc.p, Args: []*Ty{{K: KTParam, Name: arg}}}, "self-referential"
			} else {
				tp.ConSrc, tp.Kind = "any", "any"
			}
		}
		g.label("constraint:" + tp.Kind)
		switch tp.Kind {
		case "any", "comparable", "union-inline", "union-inline-composite", "union-named", "element-then-union", "method-iface":
			prevBlank := len(tps) > 0 && tps[len(tps)-1].Name == "_"
			if n >= 2 && (g.Chance(8+g.P.BlankTParamBoost) || (prevBlank && g.Chance(60))) {
				tp.Name = "_" // blank type parameter: never referenced, the mock must still name it
				g.label("tparam:blank")
			}
		}
		tps = append(tps, tp)
	}
	return tps, hard
}

func (g *G) genIface(cfgSkipEnsure bool) *Iface {
	exported := !g.inPlace || g.Chance(85)
	it := &Iface{Name: g.freshTop(ifaceNamePool, exported), AllMeths: map[string]bool{}, Exported: exported}
	// reserve mock names
	g.topNames[it.Name+"Mock"] = true
	k := g.Int(0, 99)
	if g.Chance(g.P.MultiRefPct) {
		var cs []namedCand
		for _, nc := range g.ifaceCands(false) {
			if nc.d.MultiRef {
				cs = append(cs, nc)
			}
		}
		if len(cs) > 0 {
			nc := cs[g.Int(0, len(cs)-1)]
			t := &Ty{K: KNamed, Name: nc.d.Name, Pkg: nc.p}
			for _, m := range nc.d.Methods {
				it.AllMeths[m] = true
			}
			g.label("iface:multi-ref-transitive")
			if g.Chance(30) {
				it.AliasOf = t
				return it
			}
			it.Embeds = append(it.Embeds, t)
			k = 50
		}
	}
	if k < 5 {
		// alias to a foreign/local method interface
		cs := g.ifaceCands(false)
		nc := cs[g.Int(0, len(cs)-1)]
		it.AliasOf = &Ty{K: KNamed, Name: nc.d.Name, Pkg: nc.p}
		for _, m := range nc.d.Methods {
			it.AllMeths[m] = true
		}
		g.label("iface:alias")
		return it
	}
	if k < 10+g.P.GenericAliasBoost/6 {
		cs := g.ifaceCands(true)
		if len(cs) > 0 {
			nc := cs[g.Int(0, len(cs)-1)]
			t := &Ty{K: KNamed, Name: nc.d.Name, Pkg: nc.p}
			for i := 0; i < nc.d.NTParams; i++ {
				t.Args = append(t.Args, g.ty(tyCtx{depth: 1}))
			}
			if g.Chance(25+g.P.GenericAliasBoost) && !g.excluded("F-M") && !g.P.ExecSafe {
				// generic alias: type X[T any] = G[T]
				tpn := g.Pick(tparamNames)
				it.TParams = []TParamDecl{{Name: tpn, ConSrc: "any", Kind: "any"}}
				if g.Chance(65) && (cfgSkipEnsure || !g.Open["F-C"]) {
					// the alias may narrow the constraint (the target accepts any): forms the explicit self-check cannot spell
					con := g.Pick([]string{"comparable", "~int | ~string", "interface{ ~int | ~uint8; String() string }", "interface{ comparable; String() string }", "interface{ Less(" + tpn + ") bool }"})
					it.TParams[0].ConSrc, it.TParams[0].Kind = con, "alias-narrowed"
					it.HardConstraint = true
					g.label("constraint:alias-narrowed")
				}
				for i := range t.Args {
					t.Args[i] = &Ty{K: KTParam, Name: tpn}
				}
				it.AliasOf = t
				g.label("iface:generic-alias")
			} else if g.Chance(50) {
				it.AliasOf = t
				g.label("iface:alias-instantiated")
			} else {
				it.DefOf = t
				g.label("iface:defined-from-instance")
			}
			for _, m := range nc.d.Methods {
				it.AllMeths[m] = true
			}
			return it
		}
	}
	if g.Chance(g.P.GenericPct) {
		var hard bool
		it.TParams, hard = g.genTParams(cfgSkipEnsure)
		it.HardConstraint = hard
		for _, tp := range it.TParams {
			if tp.Name != "_" {
				g.tparams = append(g.tparams, tparam{Name: tp.Name, Cmp: tp.Cmp, Kind: tp.Kind})
			} else if g.excluded("F-L") {
				g.forceNamed = true
			}
		}
		g.label("iface:generic")
	}
	defer func() { g.tparams = nil; g.forceNamed = false }()
	if g.Chance(g.P.EmbedPct) {
		ne := g.Int(1, 2)
		for i := 0; i < ne; i++ {
			generic := g.Chance(20)
			cs := g.ifaceCands(generic)
			if len(cs) == 0 {
				continue
			}
			nc := cs[g.Int(0, len(cs)-1)]
			for _, c := range cs {
				if c.d.Twin[0] != "" && !generic && g.Chance(60) {
					nc = c // the build-constrained twin, if the world has one
				}
			}
			clash := false
			for _, m := range nc.d.Methods {
				if it.AllMeths[m] {
					clash = true
				}
			}
			if clash {
				continue
			}
			t := &Ty{K: KNamed, Name: nc.d.Name, Pkg: nc.p}
			for j := 0; j < nc.d.NTParams; j++ {
				t.Args = append(t.Args, g.ty(tyCtx{depth: 1}))
			}
			for _, m := range nc.d.Methods {
				it.AllMeths[m] = true
			}
			it.Embeds = append(it.Embeds, t)
			g.label("iface:embeds")
			if nc.p != g.src {
				g.label("iface:embeds-foreign")
			}
		}
	}
	if !it.AllMeths["Error"] && g.Chance(2+g.P.EmbedPct/5) {
		// the predeclared error interface: its method belongs to no package
		it.Embeds = append(it.Embeds, basic("error", true))
		it.AllMeths["Error"] = true
		g.label("iface:embeds-error")
	}
	nm := g.Int(0, g.P.MaxMethods)
	if nm == 0 && len(it.Embeds) == 0 && g.Chance(70) {
		nm = 1
	}
	if g.Chance(3) {
		nm = g.Int(17, 24) // wide interfaces
		g.label("iface:many-methods")
	}
	huge := false
	if g.Chance(g.P.HugePct) {
		nm = g.Int(520, 700) // SDK-sized: the output exceeds a megabyte
		huge = true
		g.label("iface:huge")
	}
	for i := 0; i < nm; i++ {
		var name string
		for {
			name = g.Pick(methodNamePool)
			if g.Chance(30) {
				name = g.freshMethod()
			}
			if g.inPlace && g.Chance(6) {
				name = LowerFirst(name)
				g.label("method:unexported")
			}
			if !it.AllMeths[name] {
				break
			}
		}
		it.AllMeths[name] = true
		if huge && i > 8 {
			name = fmt.Sprintf("Op%04d", i)
			it.AllMeths[name] = true
			it.Methods = append(it.Methods, Meth{Name: name, Sig: &Sig{Params: []Param{{Name: "id", T: basic("string", true)}, {Name: "n", T: basic("int", true)}}, Results: []Param{{T: basic("error", true)}}}})
			continue
		}
		it.Methods = append(it.Methods, Meth{Name: name, Sig: g.sig(0, false)})
	}
	if len(it.Methods) > 0 && g.Chance(3) {
		// a method named like a member the mock type generates for another method (accessor, function field,
		// reset method): such a mock cannot compile, moq has to refuse it (or, where nothing clashes, cope)
		base := it.Methods[g.Int(0, len(it.Methods)-1)].Name
		cand := g.Pick([]string{base + "Calls", base + "Func", "Reset" + base + "Calls", "ResetCalls", "Reset", "lock" + base, "calls"})
		if (strings.HasPrefix(cand, "lock") || cand == "calls") && !g.inPlace {
			cand = base + "Calls" // unexported methods only exist for mocks generated in place
		}
		if !it.AllMeths[cand] {
			it.AllMeths[cand] = true
			it.Methods = append(it.Methods, Meth{Name: cand, Sig: g.sig(0, false)})
			g.label("iface:generated-member-name")
		}
	}
	if len(it.AllMeths) == 0 {
		g.label("iface:empty")
	}
	if len(it.TParams) == 0 && g.Chance(g.P.LiteralAliasPct) {
		it.LiteralAlias = true
		g.label("iface:literal-alias")
	}
	// fluent / self-referential interfaces: a method returns (or takes) the interface itself
	hasBlank := false
	for _, tp := range it.TParams {
		if tp.Name == "_" {
			hasBlank = true
		}
	}
	if len(it.Methods) > 0 && !it.LiteralAlias && !hasBlank && g.Chance(12) {
		self := &Ty{K: KNamed, Name: it.Name, Pkg: g.src, Cmp: true}
		for _, tp := range it.TParams {
			self.Args = append(self.Args, &Ty{K: KTParam, Name: tp.Name})
		}
		m := &it.Methods[g.Int(0, len(it.Methods)-1)]
		if g.Chance(75) {
			if len(m.Sig.Results) == 0 {
				m.Sig.Results = []Param{{T: self}}
			} else {
				m.Sig.Results[0].T = self
			}
		} else if len(m.Sig.Params) > 0 && !m.Sig.Variadic {
			m.Sig.Params[0].T = self
		}
		g.label("iface:self-referential")
	}
	return it
}

func (it *Iface) walk(f func(*Ty)) {
	it.AliasOf.Walk(f)
	it.DefOf.Walk(f)
	for _, e := range it.Embeds {
		e.Walk(f)
	}
	for _, tp := range it.TParams {
		tp.Con.Walk(f)
		for _, t := range tp.Terms {
			t.Walk(f)
		}
	}
	for _, m := range it.Methods {
		m.Sig.Walk(f)
	}
}

func (it *Iface) render(q Qual) string {
	var b strings.Builder
	fmt.Fprintf(&b, "// %s is generated.\ntype %s", it.Name, it.Name)
	if len(it.TParams) > 0 {
		b.WriteString("[")
		for i, tp := range it.TParams {
			if i > 0 {
				b.WriteString(", ")
			}
			b.WriteString(tp.Name + " ")
			switch {
			case len(tp.Terms) > 0:
				var ts []string
				for _, t := range tp.Terms {
					ts = append(ts, t.Render(q))
				}
				if tp.TermsIface {
					b.WriteString("interface{ " + strings.Join(ts, " | ") + " }")
				} else {
					b.WriteString(strings.Join(ts, " | "))
				}
			case tp.Con != nil:
				b.WriteString(tp.Con.Render(q))
			default:
				b.WriteString(tp.ConSrc)
			}
		}
		b.WriteString("]")
	}
	if it.AliasOf != nil {
		b.WriteString(" = " + it.AliasOf.Render(q) + "\n")
		return b.String()
	}
	if it.DefOf != nil {
		b.WriteString(" " + it.DefOf.Render(q) + "\n")
		return b.String()
	}
	if it.LiteralAlias {
		b.WriteString(" =")
	}
	b.WriteString(" interface {\n")
	for _, e := range it.Embeds {
		b.WriteString("\t" + e.Render(q) + "\n")
	}
	for _, m := range it.Methods {
		b.WriteString("\t" + m.Name + m.Sig.render(q, true) + "\n")
	}
	b.WriteString("}\n")
	return b.String()
}

var aliasPool = []string{"a", "b", "x", "pkg", "dep", "m", "t", "std", "al", "imp", "v1", "mock", "callInfo"}

func (g *G) assignFiles() {
	nf := g.Int(1, 3)
	names := []string{"a_src.go", "m_src.go", "z_src.go"}
	for i := 0; i < nf; i++ {
		g.files = append(g.files, &srcFile{Name: names[i], Imports: map[*Pkg]string{}})
	}
	for _, f := range g.files {
		if g.Chance(20) {
			f.splitImports = true
			g.label("src:several-import-declarations")
		}
		if g.Chance(25) {
			f.header = g.Pick([]string{
				"//\n// Package doc in the bare-slash style.\n//\n",
				"// Copyright (c) someone.\n\n",
				"/* block comment header */\n\n",
				"// Code generated by protoc-gen-go. DO NOT EDIT.\n// source: thing.proto\n\n",
				"//go:build !ignore_this_file\n\n",
				"//\n",
				"// x\n",
			})
			g.label("src:header-comment")
		}
	}
	for _, it := range g.ifaces {
		f := g.files[g.Int(0, nf-1)]
		f.ifaces = append(f.ifaces, it)
	}
	for _, d := range g.locals {
		f := g.files[g.Int(0, nf-1)]
		f.locals = append(f.locals, d)
	}
	globalAlias := map[*Pkg]string{}
	tpNames := map[string]bool{}
	for _, it := range g.ifaces {
		for _, tp := range it.TParams {
			tpNames[tp.Name] = true
		}
	}
	for _, f := range g.files {
		seen := map[*Pkg]bool{}
		for _, it := range f.ifaces {
			it.walk(func(t *Ty) {
				if t.K == KNamed && t.Pkg != nil && t.Pkg != g.src && !seen[t.Pkg] {
					seen[t.Pkg] = true
					f.order = append(f.order, t.Pkg)
				}
			})
		}
		sort.SliceStable(f.order, func(i, j int) bool { return f.order[i].Path < f.order[j].Path })
		usedQ := map[string]bool{}
		// pass 1: decide aliases
		for _, p := range f.order {
			alias := ""
			if a, ok := globalAlias[p]; ok && g.Chance(80) {
				alias = a
			} else if g.Chance(g.P.AliasPct) {
				kind := g.Int(0, 5)
				if g.Chance(g.P.OtherNameAliasBoost) {
					kind = 4
				}
				switch kind {
				case 0, 1, 2:
					alias = g.Pick(aliasPool)
				case 3:
					alias = p.Name + "pkg"
				case 4:
					// the name of another package in play
					o := StdPkgs[g.Int(0, len(StdPkgs)-1)]
					alias = o.Name
					// preferably a package another file of the source package imports under its plain name (this
					// file cannot import it as well then): `json "x/fastjson"` here, "encoding/json" there
					var inOther []*Pkg
					for _, f2 := range g.files {
						if f2 == f {
							continue
						}
						for _, q := range f2.order {
							if f2.Imports[q] == "" && q.Name != p.Name && !seen[q] && strings.Contains(q.Path, "/") {
								inOther = append(inOther, q)
							}
						}
					}
					if len(inOther) > 0 && g.Chance(75) {
						alias = inOther[g.Int(0, len(inOther)-1)].Name
						g.label("alias:name-of-package-in-other-file")
					}
					g.label("alias:other-pkg-name")
				case 5:
					alias = UpperFirst(p.Name)
				}
				if len(globalAlias) > 0 && g.Chance(g.P.SameAliasPct) {
					// the alias some other file uses for another package
					var others []string
					for op, oa := range globalAlias {
						if op != p {
							others = append(others, oa)
						}
					}
					sort.Strings(others)
					if len(others) > 0 {
						alias = others[g.Int(0, len(others)-1)]
					}
				}
			}
			q := alias
			if q == "" {
				q = p.Name
			}
			aliasTaken := func(a string) bool {
				if !g.P.UniqueAliases || a == "" {
					return false
				}
				for op, oa := range globalAlias {
					if op != p && oa == a {
						return true
					}
				}
				// the plain name of another imported package counts as well
				for _, f2 := range g.files {
					for _, op := range f2.order {
						if op != p && op.Name == a {
							return true
						}
					}
				}
				return false
			}
			if aliasTaken(alias) {
				g.Excl["F-K"]++
			}
			for tries := 0; usedQ[q] || g.declNames[q] || tpNames[q] || IsKeyword(q) || Predeclared[q] || q == "_" || aliasTaken(alias); tries++ {
				alias = fmt.Sprintf("%s%d", g.Pick(aliasPool), tries)
				q = alias
			}
			usedQ[q] = true
			f.Imports[p] = alias
			if alias != "" {
				if ga, ok := globalAlias[p]; ok && ga != alias {
					g.label("alias:differs-between-files")
				}
				for op, oa := range globalAlias {
					if op != p && oa == alias {
						if g.excluded("F-K") {
							// keep: F-K only concerns regeneration (harness F handles it)
						}
						g.label("alias:same-for-two-paths")
					}
				}
				globalAlias[p] = alias
				g.label("alias:source")
			}
		}
		if len(f.order) >= 2 {
			g.label("src:multi-import")
		}
		// a dot import (at most one per file, only when no exported name of that package collides with anything)
		if !g.P.NoDotBlank && g.Chance(8) {
			for _, p := range f.order {
				if p.Std || f.Imports[p] != "" {
					continue
				}
				ok := true
				for _, d := range p.Decls {
					if g.declNames[d.Name] || tpNames[d.Name] || Predeclared[d.Name] {
						ok = false
					}
					for q2 := range usedQ {
						if q2 == d.Name {
							ok = false
						}
					}
				}
				if ok {
					f.Imports[p] = "."
					delete(usedQ, p.Name)
					g.label("src:dot-import")
					break
				}
			}
		}
		// blank imports of packages the file does not otherwise use
		if !g.P.NoDotBlank && g.Chance(10) {
			all := append(append([]*Pkg{}, g.deps...), StdPkg("errors"), StdPkg("sort"), StdPkg("strings"))
			p := all[g.Int(0, len(all)-1)]
			if _, used := f.Imports[p]; !used {
				f.blank = append(f.blank, p)
				g.label("src:blank-import")
			}
		}
	}
}

func (g *G) renderSrcFile(f *srcFile) string {
	var b strings.Builder
	b.WriteString(f.header)
	fmt.Fprintf(&b, "package %s\n\n", g.src.Name)
	if f.splitImports && len(f.order) >= 2 {
		// several import declarations in one file: a single-spec one, then a block
		p0 := f.order[0]
		if a := f.Imports[p0]; a != "" {
			fmt.Fprintf(&b, "import %s %q\n\n", a, p0.Path)
		} else {
			fmt.Fprintf(&b, "import %q\n\n", p0.Path)
		}
	}
	if len(f.order)+len(f.blank) > 0 {
		b.WriteString("import (\n")
		for i, p := range f.order {
			if i == 0 && f.splitImports && len(f.order) >= 2 {
				continue
			}
			if a := f.Imports[p]; a != "" {
				fmt.Fprintf(&b, "\t%s %q\n", a, p.Path)
			} else {
				fmt.Fprintf(&b, "\t%q\n", p.Path)
			}
		}
		for _, p := range f.blank {
			fmt.Fprintf(&b, "\t_ %q\n", p.Path)
		}
		b.WriteString(")\n\n")
	}
	q := func(p *Pkg) string {
		if p == nil || p == g.src {
			return ""
		}
		a := f.Imports[p]
		if a == "." {
			return ""
		}
		if a == "" {
			a = p.Name
		}
		return a + "."
	}
	for _, d := range f.locals {
		if d.Twin[0] != "" {
			continue // lives in two files of its own
		}
		b.WriteString(d.Src + "\n\n")
	}
	for _, it := range f.ifaces {
		b.WriteString(it.render(q) + "\n")
	}
	return b.String()
}

// Case draws a complete case.
func (g *G) Case() *core.Case {
	g.modPath = "example.com/w"
	if g.P.ModPath != "" {
		g.modPath = g.P.ModPath
	}
	g.gopath = g.P.ModPath == "" && g.Chance(g.P.GopathPct)
	if g.gopath {
		g.label("layout:gopath-vendor")
	}
	if !g.P.AdvNames && g.Chance(g.P.AdvNamesPct) {
		g.P.AdvNames = true
		g.label("names:adversarial-pools")
	}
	cfg := core.Config{}
	cfg.Stub = g.Chance(40)
	cfg.SkipEnsure = g.Chance(35)
	cfg.WithResets = g.Chance(40)
	// the flag package accepts several spellings of a boolean flag; an explicit false is "without the flag"
	for _, bf := range []struct {
		name string
		v    bool
	}{{"stub", cfg.Stub}, {"skip-ensure", cfg.SkipEnsure}, {"with-resets", cfg.WithResets}} {
		if !g.Chance(10) {
			continue
		}
		forms := []string{"-%s=false", "-%s=0", "--%s=false", "-%s=F"}
		if bf.v {
			forms = []string{"-%s=true", "--%s", "-%s=1", "--%s=T"}
		}
		if cfg.BoolForm == nil {
			cfg.BoolForm = map[string]string{}
		}
		cfg.BoolForm[bf.name] = fmt.Sprintf(g.Pick(forms), bf.name)
		g.label(fmt.Sprintf("flag:explicit-%v", bf.v))
	}
	// destination
	k := g.Int(0, 99)
	switch {
	case g.P.InPlaceOnly:
		cfg.DestKind = "implicit"
	case k < g.P.DestOther:
		cfg.DestKind = "other"
	case k < g.P.DestOther+g.P.DestTest:
		cfg.DestKind = "test"
	case k < g.P.DestOther+g.P.DestTest+g.P.DestSame:
		if g.excluded("F-D") {
			cfg.DestKind = "implicit"
		} else {
			cfg.DestKind = "same"
		}
	default:
		cfg.DestKind = "implicit"
	}
	g.inPlace = cfg.DestKind == "implicit" || cfg.DestKind == "same"
	g.label("dest:" + cfg.DestKind)
	if !g.P.FmtDefault {
		cfg.Fmt = g.Pick([]string{"", "", "", "gofmt", "goimports", "noop"})
	}
	cfg.Invoke = g.Pick([]string{"srcdot", "srcdot", "rootrel", "foreignabs"})

	g.genDeps()
	dir := g.Pick(srcDirPool)
	for tries := 0; tries < 20; tries++ {
		clash := false
		for _, p := range g.deps {
			if p.Dir == dir || strings.HasPrefix(p.Dir, dir+"/") || strings.HasPrefix(dir, p.Dir+"/") {
				clash = true
			}
		}
		if !clash {
			break
		}
		dir = g.Pick(srcDirPool)
	}
	var nested *Pkg
	if !g.P.ExecSafe && g.Chance(8) {
		// the source package is the PARENT directory of a dependency: <srcdir>/<x> is a package the interface mentions
		var cs []*Pkg
		for _, p := range g.deps {
			if strings.Contains(p.Dir, "/") && !p.Std && lastElem(p.Dir) == p.Name && !strings.HasPrefix(p.Dir, "vendor/") {
				par := p.Dir[:strings.LastIndex(p.Dir, "/")]
				pn := pkgNameForDir(par)
				ok := pn != "" && !IsKeyword(pn) && !Predeclared[pn] && (pn[0] >= 'a' && pn[0] <= 'z') && pn != p.Name
				for _, o := range g.deps {
					if o.Dir == par {
						ok = false
					}
				}
				if ok {
					cs = append(cs, p)
				}
			}
		}
		if len(cs) > 0 {
			nested = cs[g.Int(0, len(cs)-1)]
			dir = nested.Dir[:strings.LastIndex(nested.Dir, "/")]
			g.label("layout:dependency-below-source-dir")
		}
	}
	name := pkgNameForDir(dir)
	if dir == "api-v1" {
		name = "api"
	}
	if dir == "my_pkg" {
		name = "mypkg"
	}
	g.src = &Pkg{Path: g.modPath + "/" + dir, Dir: dir, Name: name}
	// names that must stay free at package level: qualifiers the mock may need
	for _, p := range g.deps {
		g.topNames[p.Name] = true
	}
	for _, p := range StdPkgs {
		g.topNames[p.Name] = true
	}
	g.topNames[name] = true
	g.genLocals()
	ni := g.Int(1, g.P.MaxIfaces)
	for i := 0; i < ni; i++ {
		g.ifaces = append(g.ifaces, g.genIface(cfg.SkipEnsure))
	}
	if nested != nil {
		// the interfaces mention a type of the package below the source directory
		for _, it := range g.ifaces {
			if it.AliasOf == nil && it.DefOf == nil {
				mn := g.freshMethod()
				it.AllMeths[mn] = true
				it.Methods = append(it.Methods, Meth{Name: mn, Sig: &Sig{Params: []Param{{Name: "v", T: &Ty{K: KNamed, Name: nested.Decls[0].Name, Pkg: nested, Cmp: nested.Decls[0].Cmp}}}}})
			}
		}
	}
	g.assignFiles()
	g.avoidRetroRenames()

	c := &core.Case{ModPath: g.modPath, Files: map[string]string{}, SrcDir: dir, SrcPath: g.src.Path, SrcName: name}
	if g.P.ModPath == "" {
		c.Files["go.mod"] = "module " + g.modPath + "\n\ngo 1.24\n"
	}
	for _, p := range g.deps {
		c.Files[p.Dir+"/"+lastElem(p.Dir)+".go"] = renderDep(p)
	}
	for _, f := range g.files {
		c.Files[dir+"/"+f.Name] = g.renderSrcFile(f)
	}
	for _, d := range g.locals {
		if d.Twin[0] != "" {
			c.Files[dir+"/zz_"+strings.ToLower(d.Name)+"_on.go"] = "//go:build " + d.Twin[0] + "\n\npackage " + name + "\n\n" + d.Src + "\n"
			c.Files[dir+"/zz_"+strings.ToLower(d.Name)+"_off.go"] = "//go:build !" + d.Twin[0] + "\n\npackage " + name + "\n\n" + d.Twin[1] + "\n"
		}
	}
	if !g.P.NoDotBlank && g.Chance(g.P.DiffAliasPct) {
		// one more file of the source package which imports packages the interfaces mention under aliases of ITS
		// OWN: the same path then has different names in different files
		var cands []*Pkg
		seenP := map[*Pkg]bool{}
		for _, f := range g.files {
			for _, p := range f.order {
				if !seenP[p] && len(p.Decls) > 0 && p.Decls[0].NTParams == 0 && p.Path != "unsafe" {
					seenP[p] = true
					cands = append(cands, p)
				}
			}
		}
		if len(cands) > 0 {
			var b strings.Builder
			fmt.Fprintf(&b, "package %s\n\nimport (\n", name)
			var uses []string
			n := 1 + g.Int(0, 1)
			taken := map[string]bool{}
			for k := 0; k < n && k < len(cands); k++ {
				p := cands[(g.Int(0, len(cands)-1)+k)%len(cands)]
				if taken[p.Path] {
					continue
				}
				taken[p.Path] = true
				alias := fmt.Sprintf("%sq%d", g.Pick(aliasPool), k)
				if g.topNames[alias] || g.declNames[alias] {
					continue
				}
				fmt.Fprintf(&b, "\t%s %q\n", alias, p.Path)
				uses = append(uses, fmt.Sprintf("var _ %s.%s", alias, p.Decls[0].Name))
			}
			if len(uses) > 0 {
				b.WriteString(")\n\n" + strings.Join(uses, "\n") + "\n")
				c.Files[dir+"/"+g.Pick([]string{"0_alias.go", "k_alias.go", "zz_alias.go"})] = b.String()
				g.label("alias:differs-between-files")
				g.label("src:extra-alias-file")
			}
		}
	}
	if !g.P.ExecSafe && !g.gopath && g.Chance(20) {
		// objects in and below the source directory which are NOT part of the package moq loads: test files,
		// files excluded by a build constraint, testdata, a nested module. None of them may influence the output.
		for k := 0; k < 1+g.Int(0, 2); k++ {
			switch g.Int(0, 5) {
			case 0:
				c.Files[dir+"/zz_noise_test.go"] = "package " + name + "\n\nimport zzs \"strings\"\n\ntype zzNoise struct{}\n\nvar _ = zzs.ToUpper\n"
			case 1:
				if cfg.DestKind != "test" {
					c.Files[dir+"/zz_ext_test.go"] = "package " + name + "_test\n\nimport zzb \"bytes\"\n\nvar _ zzb.Buffer\n"
				}
			case 2:
				c.Files[dir+"/zz_ignored.go"] = "//go:build ignore\n\npackage main\n\nimport (\n\tzzctx \"context\"\n\tzzio \"io\"\n\tzzhttp \"net/http\"\n)\n\nvar (\n\t_ zzctx.Context\n\t_ zzio.Reader\n\t_ zzhttp.Handler\n)\n\nfunc main() {}\n"
			case 3:
				c.Files[dir+"/testdata/broken.go"] = "package broken\n\nfunc {\n"
			case 4:
				c.Files[dir+"/doc.go"] = "// Package " + name + " has a file with nothing but comments.\n//\n// Deprecated: no.\npackage " + name + "\n\n// trailing comment\n"
			default:
				c.Files[dir+"/nestedmod/go.mod"] = "module example.org/nested\n\ngo 1.24\n"
				c.Files[dir+"/nestedmod/n.go"] = "package nestedmod\n\nimport zzt \"time\"\n\ntype T = zzt.Duration\n"
			}
		}
		g.label("src:noise-files")
	}
	if g.gopath {
		// GOPATH layout: everything lives under src/<module path>/, there is no go.mod
		c.Gopath = true
		delete(c.Files, "go.mod")
		moved := map[string]string{}
		for k, v := range c.Files {
			moved["src/"+g.modPath+"/"+k] = v
		}
		c.Files = moved
	}
	// goimports in GOPATH mode guesses package names and may swap imports (F-N-gopath)
	if cfg.Fmt == "goimports" && g.gopath {
		if g.excluded("F-N") {
			cfg.Fmt = ""
		}
	}
	// goimports from a foreign cwd cannot see packages whose name differs from the last path element (F-N)
	if cfg.Fmt == "goimports" && cfg.Invoke == "foreignabs" {
		if g.excluded("F-N") {
			cfg.Invoke = "rootrel"
		}
	}

	// arguments
	nargs := 1
	if g.Chance(g.P.MultiArgPct) {
		nargs = g.Int(2, 4)
	}
	usedMock := map[string]bool{}
	for len(cfg.Args) < nargs {
		it := g.ifaces[g.Int(0, len(g.ifaces)-1)]
		arg := it.Name
		mock := it.Name + "Mock"
		if g.Chance(25) || usedMock[mock] {
			for i := 0; ; i++ {
				mock = g.Pick([]string{"Fake", "Stub", "MyMock", "mockThing", "Double", "M"}) + it.Name
				if i > 3 {
					mock = fmt.Sprintf("%s%d", mock, i)
				}
				if !usedMock[mock] && !g.topNames[mock] {
					break
				}
			}
			arg = it.Name + ":" + mock
			g.label("arg:alias")
		}
		if !g.inPlace && !usedMock[it.Name] && g.Chance(8) {
			// in another package the mock may be called like the interface itself
			mock = it.Name
			arg = it.Name + ":" + mock
			g.label("arg:mock-named-like-interface")
		} else if g.Chance(g.P.MockLikeParamPct) {
			// a mock type called like one of the parameters of the interface's methods
			var names []string
			fileScope := map[string]bool{} // a package-level type may not be named like an import of any source file
			for _, tp := range it.TParams {
				fileScope[tp.Name] = true // nor like a type parameter of the interface (the self-check could not name it)
			}
			for _, f := range g.files {
				for p, a := range f.Imports {
					fileScope[a] = true
					fileScope[p.Name] = true
				}
			}
			for _, m := range it.Methods {
				if m.Sig == nil {
					continue
				}
				for _, p := range append(append([]Param{}, m.Sig.Params...), m.Sig.Results...) {
					n := p.Name
					if n != "" && n != "_" && !usedMock[n] && !fileScope[n] && !g.topNames[n] && !g.declNames[n] && !Predeclared[n] && !IsKeyword(n) && n != "mock" && n != "callInfo" {
						names = append(names, n)
					}
				}
			}
			if len(names) > 0 {
				mock = names[g.Int(0, len(names)-1)]
				arg = it.Name + ":" + mock
				g.label("arg:mock-named-like-param")
			}
		}
		usedMock[mock] = true
		cfg.Args = append(cfg.Args, arg)
	}
	if len(cfg.Args) > 1 {
		g.label("arg:multi")
	}
	switch cfg.DestKind {
	case "same":
		cfg.Pkg = name
	case "other":
		cfg.Pkg = g.Pick([]string{"mocks", "other", "fakes", "testdoubles", "mymock"})
		if nested != nil && g.Chance(60) {
			// -pkg names a directory that exists below the working directory and holds a package of that name
			cfg.Pkg = nested.Name
			cfg.Invoke = "srcdot"
			g.label("dest:named-like-subpackage")
		}
	case "test":
		cfg.Pkg = name + "_test"
	}
	if g.Chance(g.P.OutFilePct) {
		switch cfg.DestKind {
		case "other":
			cfg.Out = "out/" + cfg.Pkg + "/mock_gen.go"
		case "test":
			cfg.Out = dir + "/mock_gen_test.go"
		default:
			cfg.Out = dir + "/" + g.Pick([]string{"mock_gen.go", "b_moq.go", "zz_moq.go", "n_moq.go"})
		}
	}
	c.Cfg = cfg
	if g.P.Evolve && !g.gopath {
		first := strings.SplitN(cfg.Args[0], ":", 2)[0]
		for _, it := range g.ifaces {
			if it.Name != first || it.AliasOf != nil || it.DefOf != nil {
				continue
			}
			saved := it.Methods
			it.Methods = append(append([]Meth{}, saved...), Meth{Name: "EvolvedV2", Sig: &Sig{Params: []Param{{Name: "n", T: basic("int", true)}}, Results: []Param{{T: basic("error", true)}}}})
			c.Alt = map[string]string{}
			for _, f := range g.files {
				if txt := g.renderSrcFile(f); txt != c.Files[dir+"/"+f.Name] {
					c.Alt[dir+"/"+f.Name] = txt
				}
			}
			it.Methods = saved
			g.label("evolve:adds-method")
		}
	}
	for l := range g.labels {
		c.Labels = append(c.Labels, l)
	}
	sort.Strings(c.Labels)
	return c
}
