package gen

// Table of std packages (and the types of them) the generators may mention.
// Only facts needed for construction are recorded; go/types is the judge.

func stdDecl(name string, cmp bool) *Decl { return &Decl{Name: name, Cmp: cmp, Exported: true} }
func stdIface(name string, methods ...string) *Decl {
	return &Decl{Name: name, Cmp: true, Iface: true, Methods: methods, Exported: true}
}

var StdPkgs = []*Pkg{
	{Path: "io", Name: "io", Std: true, Decls: []*Decl{
		stdIface("Reader", "Read"), stdIface("Writer", "Write"), stdIface("Closer", "Close"),
		stdIface("ReadWriter", "Read", "Write"), stdIface("ByteReader", "ReadByte"),
	}},
	{Path: "context", Name: "context", Std: true, Decls: []*Decl{
		stdIface("Context", "Deadline", "Done", "Err", "Value"), stdDecl("CancelFunc", false),
	}},
	{Path: "time", Name: "time", Std: true, Decls: []*Decl{
		{Name: "Duration", Cmp: true, Stringer: true, Exported: true}, stdDecl("Time", true),
		{Name: "Month", Cmp: true, Stringer: true, IntLike: true, Exported: true},
	}},
	{Path: "net/http", Name: "http", Std: true, Decls: []*Decl{
		stdIface("Handler", "ServeHTTP"), stdDecl("Request", false), stdDecl("Header", false),
		stdIface("ResponseWriter", "Header", "Write", "WriteHeader"), stdDecl("Client", false), stdDecl("Server", false),
		stdDecl("Response", false), stdIface("RoundTripper", "RoundTrip"), stdDecl("Cookie", false),
	}},
	// testing.TB cannot be implemented outside package testing: an opaque named type here, never embedded
	{Path: "testing", Name: "testing", Std: true, Decls: []*Decl{
		stdDecl("TB", true), stdDecl("T", false), stdDecl("B", false),
	}},
	{Path: "text/template", Name: "template", Std: true, Decls: []*Decl{
		stdDecl("Template", false), stdDecl("FuncMap", false),
	}},
	{Path: "html/template", Name: "template", Std: true, Decls: []*Decl{
		stdDecl("Template", false), stdDecl("FuncMap", false), stdDecl("HTML", true),
	}},
	{Path: "math/rand", Name: "rand", Std: true, Decls: []*Decl{
		stdDecl("Rand", false), stdIface("Source", "Int63", "Seed"),
	}},
	{Path: "math/rand/v2", Name: "rand", Std: true, Decls: []*Decl{
		stdDecl("Rand", false), stdIface("Source", "Uint64"),
	}},
	{Path: "sync", Name: "sync", Std: true, Decls: []*Decl{
		stdDecl("WaitGroup", false), stdDecl("Mutex", false), stdIface("Locker", "Lock", "Unlock"),
	}},
	{Path: "os", Name: "os", Std: true, Decls: []*Decl{
		stdDecl("File", false), {Name: "FileInfo", Cmp: true, Iface: true, Alias: true, Exported: true,
			Methods: []string{"Name", "Size", "Mode", "ModTime", "IsDir", "Sys"}},
		stdIface("Signal", "String", "Signal"), {Name: "FileMode", Cmp: true, Alias: true, Exported: true},
	}},
	{Path: "fmt", Name: "fmt", Std: true, Decls: []*Decl{
		stdIface("Stringer", "String"), stdIface("GoStringer", "GoString"),
	}},
	{Path: "net/url", Name: "url", Std: true, Decls: []*Decl{
		stdDecl("URL", true), stdDecl("Values", false),
	}},
	{Path: "bytes", Name: "bytes", Std: true, Decls: []*Decl{stdDecl("Buffer", false)}},
	{Path: "encoding/json", Name: "json", Std: true, Decls: []*Decl{
		stdDecl("RawMessage", false), stdIface("Marshaler", "MarshalJSON"), stdDecl("Number", true),
	}},
	{Path: "sort", Name: "sort", Std: true, Decls: []*Decl{stdIface("Interface", "Len", "Less", "Swap")}},
	{Path: "errors", Name: "errors", Std: true},
	{Path: "unsafe", Name: "unsafe", Std: true, Decls: []*Decl{stdDecl("Pointer", true)}},
	{Path: "strings", Name: "strings", Std: true, Decls: []*Decl{stdDecl("Builder", false), stdDecl("Reader", false)}},
}

func StdPkg(path string) *Pkg {
	for _, p := range StdPkgs {
		if p.Path == path {
			return p
		}
	}
	return nil
}

// StdPaths lists the std packages the in-harness type checker may be asked for.
func StdPaths() []string {
	var s []string
	for _, p := range StdPkgs {
		s = append(s, p.Path)
	}
	return s
}

var basicCmp = []string{"bool", "string", "int", "int8", "int16", "int32", "int64", "uint", "uint8", "uint16", "uint32", "uint64",
	"uintptr", "float32", "float64", "complex64", "complex128", "byte", "rune"}

// Initialisms is an independent copy of the golint list (from the lint
// project's documentation), used by the naming generators and the C13 model.
var Initialisms = []string{
	"ACL", "API", "ASCII", "CPU", "CSS", "DNS", "EOF", "GUID", "HTML", "HTTP", "HTTPS", "ID", "IP", "JSON", "LHS",
	"QPS", "RAM", "RHS", "RPC", "SLA", "SMTP", "SQL", "SSH", "TCP", "TLS", "TTL", "UDP", "UI", "UID", "UUID", "URI",
	"URL", "UTF8", "VM", "XML", "XMPP", "XSRF", "XSS",
}

var goKeywords = map[string]bool{"break": true, "default": true, "func": true, "interface": true, "select": true, "case": true,
	"defer": true, "go": true, "map": true, "struct": true, "chan": true, "else": true, "goto": true, "package": true, "switch": true,
	"const": true, "fallthrough": true, "if": true, "range": true, "type": true, "continue": true, "for": true, "import": true,
	"return": true, "var": true}

func IsKeyword(s string) bool { return goKeywords[s] }

// Predeclared identifiers (universe scope).
var Predeclared = map[string]bool{"any": true, "bool": true, "byte": true, "comparable": true, "complex64": true, "complex128": true,
	"error": true, "float32": true, "float64": true, "int": true, "int8": true, "int16": true, "int32": true, "int64": true,
	"rune": true, "string": true, "uint": true, "uint8": true, "uint16": true, "uint32": true, "uint64": true, "uintptr": true,
	"true": true, "false": true, "iota": true, "nil": true, "append": true, "cap": true, "clear": true, "close": true,
	"complex": true, "copy": true, "delete": true, "imag": true, "len": true, "make": true, "max": true, "min": true,
	"new": true, "panic": true, "print": true, "println": true, "real": true, "recover": true}
