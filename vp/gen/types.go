// Package gen holds the rapid generators of Go "worlds" (a module with
// dependency packages and a source package with interfaces) and moq
// command lines. Everything random is drawn through rapid so cases shrink
// and replay.
package gen

import (
	"fmt"
	"strings"
)

type Kind int

const (
	KBasic Kind = iota
	KNamed
	KPtr
	KSlice
	KArray
	KMap
	KChan
	KFunc
	KStruct
	KIface
	KTParam
)

// Ty is a type expression of the world IR.
type Ty struct {
	K       Kind
	Name    string // basic / named / type parameter name
	Pkg     *Pkg   // KNamed: declaring package
	Args    []*Ty  // KNamed: type arguments
	Elem    *Ty
	Key     *Ty
	N       int
	Dir     int // chan: 0 both, 1 send-only, 2 receive-only
	Sig     *Sig
	Fields  []Field
	Methods []Meth
	Embeds  []*Ty
	Cmp     bool // usable as a map key
}

type Param struct {
	Name string
	T    *Ty
}

type Sig struct {
	Group    bool // render consecutive same-typed named parameters / results as one grouped declaration
	Params   []Param
	Results  []Param
	Variadic bool
}

type Field struct {
	Name     string
	T        *Ty
	Embedded bool
	Tag      string
}

type Meth struct {
	Name string
	Sig  *Sig
}

// Pkg is a package of the world (or a std package referenced by path).
type Pkg struct {
	Path  string
	Dir   string // relative dir in the world ("" for std)
	Name  string
	Std   bool
	Decls []*Decl
	// imports of the (single) file of a dependency package, path -> *Pkg
	deps []*Pkg
}

// Decl is a declared (exported unless noted) type of a package.
type Decl struct {
	Name     string
	Cmp      bool
	Iface    bool      // method-set interface: embeddable, mockable
	Methods  []string  // method names of an interface (complete set)
	Constr   bool      // constraint-only interface (has type terms)
	NTParams int       // generic: number of type parameters
	TPCmp    []bool    // generic: parameter i needs a comparable argument
	Src      string    // declaration text for world packages (uses %Q{path} placeholders for qualifiers)
	Uses     []*Pkg    // packages mentioned by Src
	Twin     [2]string // local declaration living in two build-constrained files: [tag expression, source for !tag]; Src is the source under the tag
	Stringer bool      // has a String() string method (witness for Strer-like constraints)
	IntLike  bool      // underlying int (witness for ~int constraints)
	Alias    bool
	Exported bool
	NonType  string // package-level object that is not a type: var-iface | var-error | func | const (hostile arguments only)
	MultiRef bool   // interface whose one method type mentions several packages at once
}

// Qual resolves the qualifier prefix ("" or "name.") for a package in the current file.
type Qual func(p *Pkg) string

func (s *Sig) render(q Qual, withNames bool) string {
	var b strings.Builder
	b.WriteString("(")
	for i, p := range s.Params {
		if i > 0 {
			b.WriteString(", ")
		}
		last := s.Variadic && i == len(s.Params)-1
		// grouped declaration `a, b T`: go/types then hands out ONE type object for both
		if s.Group && p.Name != "" && i+1 < len(s.Params) && s.Params[i+1].Name != "" && !last &&
			!(s.Variadic && i+1 == len(s.Params)-1) && s.Params[i+1].T.Render(q) == p.T.Render(q) {
			b.WriteString(p.Name)
			continue
		}
		if p.Name != "" {
			b.WriteString(p.Name + " ")
		}
		if last {
			b.WriteString("..." + p.T.Elem.Render(q))
		} else {
			b.WriteString(p.T.Render(q))
		}
	}
	b.WriteString(")")
	if len(s.Results) == 0 {
		return b.String()
	}
	named := false
	for _, r := range s.Results {
		if r.Name != "" {
			named = true
		}
	}
	if len(s.Results) == 1 && !named {
		return b.String() + " " + s.Results[0].T.Render(q)
	}
	b.WriteString(" (")
	for i, r := range s.Results {
		if i > 0 {
			b.WriteString(", ")
		}
		if s.Group && r.Name != "" && i+1 < len(s.Results) && s.Results[i+1].Name != "" && s.Results[i+1].T.Render(q) == r.T.Render(q) {
			b.WriteString(r.Name)
			continue
		}
		if r.Name != "" {
			b.WriteString(r.Name + " ")
		}
		b.WriteString(r.T.Render(q))
	}
	b.WriteString(")")
	return b.String()
}

// Render prints the type as Go source relative to a file's qualifiers.
func (t *Ty) Render(q Qual) string {
	switch t.K {
	case KBasic, KTParam:
		if t.Elem != nil && strings.Contains(t.Name, "\x00") {
			// union term with a tilde / composite spelling around a named type: ~[]pkg.T, ~map[pkg.T]string
			return strings.Replace(t.Name, "\x00", t.Elem.Render(q), 1)
		}
		return t.Name
	case KNamed:
		s := q(t.Pkg) + t.Name
		if len(t.Args) > 0 {
			as := make([]string, len(t.Args))
			for i, a := range t.Args {
				as[i] = a.Render(q)
			}
			s += "[" + strings.Join(as, ", ") + "]"
		}
		return s
	case KPtr:
		return "*" + t.Elem.Render(q)
	case KSlice:
		return "[]" + t.Elem.Render(q)
	case KArray:
		return fmt.Sprintf("[%d]%s", t.N, t.Elem.Render(q))
	case KMap:
		return "map[" + t.Key.Render(q) + "]" + t.Elem.Render(q)
	case KChan:
		switch t.Dir {
		case 1:
			return "chan<- " + t.Elem.Render(q)
		case 2:
			return "<-chan " + t.Elem.Render(q)
		}
		if t.Elem.K == KChan && t.Elem.Dir == 2 {
			return "chan (" + t.Elem.Render(q) + ")"
		}
		return "chan " + t.Elem.Render(q)
	case KFunc:
		return "func" + t.Sig.render(q, true)
	case KStruct:
		var b strings.Builder
		b.WriteString("struct{")
		for i, f := range t.Fields {
			if i > 0 {
				b.WriteString("; ")
			}
			if !f.Embedded {
				b.WriteString(f.Name + " ")
			}
			b.WriteString(f.T.Render(q))
			if f.Tag != "" {
				b.WriteString(" `" + f.Tag + "`")
			}
		}
		b.WriteString("}")
		return b.String()
	case KIface:
		var b strings.Builder
		b.WriteString("interface{")
		n := 0
		for _, e := range t.Embeds {
			if n > 0 {
				b.WriteString("; ")
			}
			b.WriteString(e.Render(q))
			n++
		}
		for _, m := range t.Methods {
			if n > 0 {
				b.WriteString("; ")
			}
			b.WriteString(m.Name + m.Sig.render(q, true))
			n++
		}
		b.WriteString("}")
		return b.String()
	}
	return "int"
}

// Walk visits t and all nested types.
func (t *Ty) Walk(f func(*Ty)) {
	if t == nil {
		return
	}
	f(t)
	for _, a := range t.Args {
		a.Walk(f)
	}
	t.Elem.Walk(f)
	t.Key.Walk(f)
	if t.Sig != nil {
		t.Sig.Walk(f)
	}
	for _, fl := range t.Fields {
		fl.T.Walk(f)
	}
	for _, m := range t.Methods {
		m.Sig.Walk(f)
	}
	for _, e := range t.Embeds {
		e.Walk(f)
	}
}

func (s *Sig) Walk(f func(*Ty)) {
	for _, p := range s.Params {
		p.T.Walk(f)
	}
	for _, r := range s.Results {
		r.T.Walk(f)
	}
}

func basic(name string, cmp bool) *Ty { return &Ty{K: KBasic, Name: name, Cmp: cmp} }
