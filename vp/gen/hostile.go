package gen

import (
	"fmt"
	"strings"

	"verif/vp/core"
)

// HostileArgs (C19) sometimes replaces or adds an invalid interface argument and records the
// diagnostic the property statement promises for it in c.Expect ("diag:<substring>").
func HostileArgs(g *G, c *core.Case) {
	if !g.Chance(35) {
		return
	}
	var nonIface, genericNonIface, constr, nonTypeOK, nonTypeBad []string
	for _, d := range g.locals {
		switch {
		case d.NonType == "var-iface" || d.NonType == "var-error":
			nonTypeOK = append(nonTypeOK, d.Name)
		case d.NonType != "":
			nonTypeBad = append(nonTypeBad, d.Name)
		case d.Constr:
			constr = append(constr, d.Name)
		case d.Iface:
		case d.NTParams > 0:
			genericNonIface = append(genericNonIface, d.Name)
		default:
			nonIface = append(nonIface, d.Name)
		}
	}
	var bad, want string
	for bad == "" {
		switch g.Int(0, 11) {
		case 10:
			if len(nonTypeOK) > 0 {
				// a variable whose type is an interface: moq may mock it or refuse it, it must not crash
				bad = g.Pick(nonTypeOK)
				want = "?"
			}
		case 11:
			if len(nonTypeBad) > 0 {
				bad = g.Pick(nonTypeBad)
				want = bad + " ("
			}
		case 0:
			bad = g.Pick([]string{"Missing", "NoSuchThing", "missing", "Xyz1", "Ünknown", "A B", "[]Item", "Store(", "Repo[", "*Thing", "a\\", "Thing)", "(?P<", "map[string]int", "Store[int]", "x|y", "+"})
			want = "interface not found: " + bad
		case 1:
			if len(nonIface) > 0 {
				bad = g.Pick(nonIface)
				want = bad + " ("
			}
		case 2:
			if len(genericNonIface) > 0 {
				bad = g.Pick(genericNonIface)
				want = bad + " ("
			}
		case 3:
			bad = ""
			want = "interface not found: "
			c.AddLabel("arg:empty")
			goto place
		case 4:
			bad = g.Pick([]string{":", "::", ":Y"})
			want = "interface not found: "
		case 5:
			// valid interface, unformattable mock name
			base := strings.SplitN(c.Cfg.Args[0], ":", 2)[0]
			bad = base + g.Pick([]string{":", ":9y", ":a b", ":a-b", ":type"})
			if c.Cfg.Fmt == "noop" {
				want = "?go/format:" // noop does not format: moq may accept it
			} else if c.Cfg.Fmt == "goimports" {
				want = "goimports:"
			} else {
				want = "go/format:"
			}
		case 6:
			bad = g.Pick([]string{"Missing:Alias", "nope:", "Missing:9"})
			want = "interface not found: " + strings.SplitN(bad, ":", 2)[0]
		case 7:
			if len(constr) > 0 {
				// a constraint interface: outside the documented domain; only "no crash" is asserted
				bad = g.Pick(constr)
				want = "?"
			}
		case 8:
			bad = fmt.Sprintf("%s.%s", c.SrcName, "Thing")
			want = "interface not found: " + bad
		case 9:
			bad = g.Pick([]string{"error", "any", "string", "comparable"})
			want = "interface not found: " + bad
		}
	}
place:
	pos := g.Int(0, len(c.Cfg.Args))
	if pos == len(c.Cfg.Args) || g.Chance(50) {
		args := append([]string{}, c.Cfg.Args[:pos]...)
		args = append(args, bad)
		args = append(args, c.Cfg.Args[pos:]...)
		c.Cfg.Args = args
	} else {
		c.Cfg.Args[pos] = bad
	}
	c.Expect = "diag:" + want
	c.AddLabel("arg:hostile")
}
