// Package vsync is an API-identical stand-in for the part of package sync that generated mocks use.
// In the "sched" build of the exec module the sync import of every generated mock file is redirected
// here. Without an installed scheduler RWMutex is a thin wrapper over sync.RWMutex; with one, every
// Lock/Unlock/RLock/RUnlock is a yield point of a harness-owned scheduler: exactly one task runs at a time,
// the harness (rapid) decides at every yield which enabled task proceeds, so an interleaving is an ordinary
// generated value - it shrinks and it replays - and "no task enabled but some unfinished" is a deadlock.
package vsync

import (
	"fmt"
	"sync"
	"sync/atomic"
)

// GoID, when set by the harness, returns the id of the calling goroutine: the scheduler records which goroutine
// runs the current task, so that a monitor can see a task blocked OUTSIDE the primitives modelled here.
var GoID func() uint64

// names of package sync that signatures of mocked interfaces may mention
type (
	Mutex     = sync.Mutex
	WaitGroup = sync.WaitGroup
	Once      = sync.Once
	Cond      = sync.Cond
	Locker    = sync.Locker
	Map       = sync.Map
	Pool      = sync.Pool
)

func NewCond(l Locker) *Cond { return sync.NewCond(l) }

// RWMutex has the method set of sync.RWMutex.
type RWMutex struct {
	real    sync.RWMutex
	writer  bool
	readers int
}

const (
	opStart = iota
	opLock
	opUnlock
	opRLock
	opRUnlock
	opGate
)

var opNames = []string{"start", "Lock", "Unlock", "RLock", "RUnlock", "gate"}

func (m *RWMutex) Lock() {
	if s := current(); s != nil {
		s.yield(m, opLock, nil)
		return
	}
	m.real.Lock()
}

func (m *RWMutex) Unlock() {
	if s := current(); s != nil {
		s.yield(m, opUnlock, nil)
		return
	}
	m.real.Unlock()
}

func (m *RWMutex) RLock() {
	if s := current(); s != nil {
		s.yield(m, opRLock, nil)
		return
	}
	m.real.RLock()
}

func (m *RWMutex) RUnlock() {
	if s := current(); s != nil {
		s.yield(m, opRUnlock, nil)
		return
	}
	m.real.RUnlock()
}

func (m *RWMutex) TryLock() bool {
	if s := current(); s != nil {
		if m.writer || m.readers > 0 {
			return false
		}
		s.yield(m, opLock, nil)
		return true
	}
	return m.real.TryLock()
}

func (m *RWMutex) TryRLock() bool {
	if s := current(); s != nil {
		if m.writer {
			return false
		}
		s.yield(m, opRLock, nil)
		return true
	}
	return m.real.TryRLock()
}

func (m *RWMutex) RLocker() Locker { return (*rlocker)(m) }

type rlocker RWMutex

func (r *rlocker) Lock()   { (*RWMutex)(r).RLock() }
func (r *rlocker) Unlock() { (*RWMutex)(r).RUnlock() }

// Gate is a harness-controlled blocking point (a callback parks on it until the harness opens it).
type Gate struct{ open bool }

// ---------------------------------------------------------------- scheduler

type pending struct {
	m    *RWMutex
	kind int
	gate *Gate
}

type task struct {
	id     int
	resume chan struct{}
	pend   pending
	done   bool
	panicV any
	gid    uint64
}

// Scheduler runs task bodies one at a time.
type Scheduler struct {
	tasks   []*task
	cur     *task
	yielded chan struct{}
	Choose  func(n int) int // picks among the enabled tasks (drawn by the harness)
	Step    int             // logical clock: number of scheduling decisions so far
	Trace   []string
	OnIdle  func(s *Scheduler) bool // called when no task is enabled; may open gates; returns true if it changed something
	curGID  atomic.Uint64
}

// RunningGID returns the goroutine id of the task that is running (0 if unknown).
func (s *Scheduler) RunningGID() uint64 { return s.curGID.Load() }

var (
	instMu sync.Mutex
	inst   *Scheduler
)

func current() *Scheduler {
	instMu.Lock()
	defer instMu.Unlock()
	return inst
}

// Deadlock is returned by Run when some task is unfinished and none is enabled.
type Deadlock struct{ Desc string }

func (d *Deadlock) Error() string { return "deadlock: " + d.Desc }

// Run executes the bodies under the scheduler until all have finished. It must be called from the goroutine
// that owns Choose (the rapid property goroutine).
func (s *Scheduler) Run(bodies []func()) (err error) {
	s.yielded = make(chan struct{})
	started := make(chan struct{}, len(bodies))
	for i, body := range bodies {
		t := &task{id: i, resume: make(chan struct{})}
		t.pend = pending{kind: opStart}
		s.tasks = append(s.tasks, t)
		body := body
		go func() {
			if GoID != nil {
				t.gid = GoID()
			}
			started <- struct{}{}
			<-t.resume
			defer func() {
				if r := recover(); r != nil {
					t.panicV = r
				}
				t.done = true
				s.yielded <- struct{}{}
			}()
			body()
		}()
	}
	for range bodies {
		<-started
	}
	instMu.Lock()
	inst = s
	instMu.Unlock()
	defer func() {
		instMu.Lock()
		inst = nil
		instMu.Unlock()
	}()
	for {
		var enabled []*task
		unfinished := 0
		for _, t := range s.tasks {
			if t.done {
				continue
			}
			unfinished++
			if s.canProceed(t) {
				enabled = append(enabled, t)
			}
		}
		if unfinished == 0 {
			for _, t := range s.tasks {
				if t.panicV != nil {
					return fmt.Errorf("task %d panicked: %v", t.id, t.panicV)
				}
			}
			return nil
		}
		if len(enabled) == 0 {
			if s.OnIdle != nil && s.OnIdle(s) {
				continue
			}
			var desc []string
			for _, t := range s.tasks {
				if !t.done {
					desc = append(desc, fmt.Sprintf("task %d waits for %s", t.id, opNames[t.pend.kind]))
				}
			}
			// the parked goroutines leak (they belong to this abandoned mock only)
			return &Deadlock{Desc: fmt.Sprint(desc)}
		}
		idx := 0
		if len(enabled) > 1 {
			idx = s.Choose(len(enabled))
		}
		t := enabled[idx]
		s.apply(t)
		s.Step++
		s.Trace = append(s.Trace, fmt.Sprintf("%d:%s", t.id, opNames[t.pend.kind]))
		s.cur = t
		s.curGID.Store(t.gid)
		t.resume <- struct{}{}
		<-s.yielded
	}
}

func (s *Scheduler) canProceed(t *task) bool {
	p := t.pend
	switch p.kind {
	case opLock:
		return !p.m.writer && p.m.readers == 0
	case opRLock:
		if p.m.writer {
			return false
		}
		// writer preference of sync.RWMutex: a pending Lock excludes new readers
		for _, o := range s.tasks {
			if o != t && !o.done && o.pend.kind == opLock && o.pend.m == p.m {
				return false
			}
		}
		return true
	case opGate:
		return p.gate.open
	}
	return true
}

func (s *Scheduler) apply(t *task) {
	p := t.pend
	switch p.kind {
	case opLock:
		p.m.writer = true
	case opUnlock:
		p.m.writer = false
	case opRLock:
		p.m.readers++
	case opRUnlock:
		p.m.readers--
	}
}

// yield is called by the running task at a synchronisation point.
func (s *Scheduler) yield(m *RWMutex, kind int, g *Gate) {
	t := s.cur
	t.pend = pending{m: m, kind: kind, gate: g}
	s.yielded <- struct{}{}
	<-t.resume
}

// Wait parks the running task on a gate.
func (s *Scheduler) Wait(g *Gate) { s.yield(nil, opGate, g) }

// Open opens a gate (from OnIdle or from a task).
func (g *Gate) Open() { g.open = true }

// Pause is a plain yield point (always enabled) a harness can insert between operations.
func Pause() {
	if s := current(); s != nil {
		s.yield(nil, opStart, nil)
	}
}

// CurrentTaskID returns the index of the task that is running.
func (s *Scheduler) CurrentTaskID() int {
	if s.cur == nil {
		return -1
	}
	return s.cur.id
}

// Now returns the logical clock.
func (s *Scheduler) Now() int { return s.Step }

// Current returns the installed scheduler (nil outside Run).
func Current() *Scheduler { return current() }
