package execdrv

import (
	"encoding/json"
	"fmt"
	"os"
	"path/filepath"
	"strings"
	"sync"
	"sync/atomic"
	"time"

	"verif/vp/vsync"
)

func init() { vsync.GoID = gid }

// The engine of the sequential histories performs every operation on the goroutine of the test, nested ones
// (a callback using the mock again) included. If generated code blocks there - a lock still held, a wait for
// "the calls in flight" - nothing in that goroutine can report it. The monitor watches from outside: when the
// goroutine that runs a history is parked in a sync wait with an IDENTICAL stack in two dumps taken one second
// apart (a single goroutine uses the mock: nobody could ever wake it up), that is a deadlock inside generated
// code (C06). The process cannot continue (the goroutine is lost), so the monitor leaves the case behind and
// exits with status 67; the driver turns that into a violation of C06, or - when another property was being
// checked - into an inconclusive shard.
const stuckExit = 67

type watched struct {
	seq  uint64
	gid  uint64
	fc   *FailCase
	desc string
	// gidFn, if set, names the goroutine to look at (scheduled programs: the task that is running)
	gidFn func() uint64
}

var (
	monOnce    sync.Once
	monCurrent atomic.Pointer[watched]
	monSeq     atomic.Uint64
	// flushStats lets the monitor write the statistics of the shard before it exits.
	flushStats atomic.Pointer[func()]
)

// watch registers the calling goroutine as running one history until done is called.
func watch(fc *FailCase, desc string) (done func()) {
	monOnce.Do(func() { go monitor() })
	w := &watched{seq: monSeq.Add(1), gid: gid(), fc: fc, desc: desc}
	monCurrent.Store(w)
	return func() { monCurrent.CompareAndSwap(w, nil) }
}

// watchScheduled registers a program running under the harness-owned scheduler: tasks run one at a time, so a
// task parked in a real sync wait (something vsync does not model, e.g. a WaitGroup) can never be woken up.
func watchScheduled(fc *FailCase, desc string) (done func()) {
	monOnce.Do(func() { go monitor() })
	w := &watched{seq: monSeq.Add(1), fc: fc, desc: desc, gidFn: func() uint64 {
		if s := vsync.Current(); s != nil {
			return s.RunningGID()
		}
		return 0
	}}
	monCurrent.Store(w)
	return func() { monCurrent.CompareAndSwap(w, nil) }
}

func goroutineBlock(dump string, id uint64) string {
	for _, g := range strings.Split(dump, "\n\n") {
		if strings.HasPrefix(g, fmt.Sprintf("goroutine %d [", id)) {
			return g
		}
	}
	return ""
}

// sameStack compares two dumps of one goroutine ignoring the header (it carries the waiting time).
func sameStack(a, b string) bool {
	ia, ib := strings.IndexByte(a, '\n'), strings.IndexByte(b, '\n')
	return ia > 0 && ib > 0 && a[ia:] == b[ib:]
}

func monitor() {
	var suspect *watched
	var suspectStack string
	for {
		time.Sleep(1 * time.Second)
		w := monCurrent.Load()
		if w == nil {
			suspect = nil
			continue
		}
		id := w.gid
		if w.gidFn != nil {
			id = w.gidFn()
		}
		dump := allStacks()
		blk := goroutineBlock(dump, id)
		if id == 0 || blk == "" || !isSyncWait(goroutineState(dump, id)) || !strings.Contains(blk, "execmod/w") {
			suspect = nil
			continue
		}
		if suspect == nil || suspect != w || !sameStack(suspectStack, blk) {
			suspect, suspectStack = w, blk
			continue
		}
		// twice the same parked stack, one second apart, inside generated code
		v := V{"C06", "operation-returns", fmt.Sprintf("[%s] %s: an operation on the mock never returns (the only runnable goroutine is parked in a sync wait inside generated code):\n%s", w.fc.MockID, w.desc, firstLines(blk, 24))}
		reportStuck(w, v)
	}
}

func firstLines(s string, n int) string {
	l := strings.Split(s, "\n")
	if len(l) > n {
		l = l[:n]
	}
	return strings.Join(l, "\n")
}

func reportStuck(w *watched, v V) {
	if out := os.Getenv("VP_REPLAY_OUT"); out != "" {
		var mine []V
		if v.Prop == w.fc.Prop {
			mine = append(mine, v)
		}
		res := map[string]any{"violations": mine}
		if len(mine) == 0 {
			res["error"] = "an operation on the mock never returns (C06) while replaying a case of " + w.fc.Prop
		}
		b, _ := json.MarshalIndent(res, "", " ")
		_ = os.WriteFile(out, b, 0o644)
		fmt.Println(string(b))
		os.Exit(stuckExit)
	}
	fc := *w.fc
	fc.Violation = &v
	b, _ := json.MarshalIndent(&fc, "", " ")
	if dir := os.Getenv("VP_SHARD_DIR"); dir != "" {
		_ = os.WriteFile(filepath.Join(dir, "stuck.json"), b, 0o644)
	}
	if f := flushStats.Load(); f != nil {
		(*f)()
	}
	fmt.Println("STUCK " + v.String())
	os.Exit(stuckExit)
}
