// Package execdrv is the run side of harness X: it is compiled INTO the test binary that also
// contains the generated mocks and drives them through reflection - value generation by
// reflect.Type, identity-aware comparison, sequential list model, lock probes, concurrent programs.
package execdrv

import (
	"bytes"
	"context"
	"errors"
	"fmt"
	"math"
	"reflect"
	"strings"
	"time"
	"unsafe"
)

// prng is a splitmix64 stream. Histories are drawn by rapid as (operation, method, value seed); the seed is
// expanded deterministically here, so a saved history replays without rapid and still shrinks as a sequence.
type prng struct{ s uint64 }

func (p *prng) next() uint64 {
	p.s += 0x9e3779b97f4a7c15
	z := p.s
	z = (z ^ (z >> 30)) * 0xbf58476d1ce4e5b9
	z = (z ^ (z >> 27)) * 0x94d049bb133111eb
	return z ^ (z >> 31)
}
func (p *prng) intn(n int) int { return int(p.next() % uint64(n)) }

var (
	errorType   = reflect.TypeOf((*error)(nil)).Elem()
	contextType = reflect.TypeOf((*context.Context)(nil)).Elem()
	stringerT   = reflect.TypeOf((*fmt.Stringer)(nil)).Elem()
)

type ctxKey struct{ n uint64 }

type uniqueErr struct{ n uint64 }

func (e *uniqueErr) Error() string { return fmt.Sprintf("err#%d", e.n) }

// doneContext returns a fresh context that is already cancelled (or whose deadline has passed): a mock has to
// hand it on like any other value.
func doneContext(n uint64, deadline bool) context.Context {
	base := context.WithValue(context.Background(), ctxKey{n}, n)
	if deadline {
		c, cancel := context.WithDeadline(base, time.Unix(0, 0))
		_ = cancel
		return c
	}
	c, cancel := context.WithCancel(base)
	cancel()
	return c
}

// known implementers for common std interfaces (fresh allocation each time => distinguishable)
func knownImpl(t reflect.Type, p *prng) (reflect.Value, bool) {
	cands := []any{
		&uniqueErr{p.next()},
		context.WithValue(context.Background(), ctxKey{p.next()}, p.next()),
		doneContext(p.next(), false),
		doneContext(p.next(), true),
		bytes.NewBufferString(fmt.Sprint(p.next())),
		strings.NewReader(fmt.Sprint(p.next())),
		time.Duration(p.next() >> 8),
		new(int),
	}
	start := p.intn(len(cands))
	for i := range cands {
		v := reflect.ValueOf(cands[(start+i)%len(cands)])
		if v.Type().Implements(t) {
			return v, true
		}
	}
	return reflect.Value{}, false
}

// Gen builds a value of type t from the stream. Reference kinds get fresh allocations so that any two
// generated values are distinguishable by identity; scalars are random.
func Gen(t reflect.Type, p *prng, depth int) reflect.Value {
	v := reflect.New(t).Elem()
	switch t.Kind() {
	case reflect.Bool:
		v.SetBool(p.next()&1 == 1)
	case reflect.Int, reflect.Int8, reflect.Int16, reflect.Int32, reflect.Int64:
		v.SetInt(int64(p.next()))
	case reflect.Uint, reflect.Uint8, reflect.Uint16, reflect.Uint32, reflect.Uint64, reflect.Uintptr:
		v.SetUint(p.next())
	case reflect.Float32, reflect.Float64:
		switch p.intn(8) {
		case 0:
			v.SetFloat(math.NaN())
		case 1:
			v.SetFloat(math.Copysign(0, -1))
		default:
			v.SetFloat(float64(int64(p.next())) / 1024)
		}
	case reflect.Complex64, reflect.Complex128:
		v.SetComplex(complex(float64(int32(p.next())), float64(int32(p.next()))))
	case reflect.String:
		v.SetString(fmt.Sprintf("s%x", p.next()&0xffffff))
	case reflect.Pointer:
		if depth > 3 || p.intn(6) == 0 {
			return v // nil
		}
		n := reflect.New(t.Elem())
		n.Elem().Set(Gen(t.Elem(), p, depth+1))
		v.Set(n)
	case reflect.Slice:
		if p.intn(6) == 0 {
			return v
		}
		n := 0
		if depth <= 3 {
			n = p.intn(4)
		}
		s := reflect.MakeSlice(t, n, n+p.intn(3)+1) // spare capacity: always a real allocation with an identity
		for i := 0; i < n; i++ {
			s.Index(i).Set(Gen(t.Elem(), p, depth+1))
		}
		v.Set(s)
	case reflect.Array:
		for i := 0; i < t.Len() && i < 8; i++ {
			v.Index(i).Set(Gen(t.Elem(), p, depth+1))
		}
	case reflect.Map:
		if p.intn(6) == 0 {
			return v
		}
		m := reflect.MakeMap(t)
		if depth <= 2 && t.Key().Kind() != reflect.Interface && p.intn(2) == 0 {
			k := Gen(t.Key(), p, depth+1)
			if k.Comparable() {
				m.SetMapIndex(k, Gen(t.Elem(), p, depth+1))
			}
		}
		v.Set(m)
	case reflect.Chan:
		if p.intn(6) == 0 {
			return v
		}
		c := reflect.MakeChan(reflect.ChanOf(reflect.BothDir, t.Elem()), p.intn(2))
		v.Set(c.Convert(t))
	case reflect.Func:
		if p.intn(6) == 0 {
			return v
		}
		ft := t
		f := reflect.MakeFunc(ft, func(args []reflect.Value) []reflect.Value {
			out := make([]reflect.Value, ft.NumOut())
			for i := range out {
				out[i] = reflect.Zero(ft.Out(i))
			}
			return out
		})
		v.Set(f)
	case reflect.Interface:
		if p.intn(6) == 0 {
			return v
		}
		if t.NumMethod() == 0 {
			switch p.intn(4) {
			case 0:
				v.Set(reflect.ValueOf(int(p.next())))
			case 1:
				v.Set(reflect.ValueOf(fmt.Sprintf("a%x", p.next()&0xffff)))
			case 2:
				v.Set(reflect.ValueOf(new(int)))
			default:
				v.Set(reflect.ValueOf(struct{ A, B uint64 }{p.next(), p.next()}))
			}
			return v
		}
		if impl, ok := knownImpl(t, p); ok {
			v.Set(impl)
		}
	case reflect.Struct:
		if depth > 3 {
			return v
		}
		for i := 0; i < t.NumField(); i++ {
			f := t.Field(i)
			if !f.IsExported() {
				continue
			}
			// do not scribble over std structs with internal invariants
			if pp := t.PkgPath(); pp != "" && !strings.HasPrefix(pp, "execmod/") {
				break
			}
			v.Field(i).Set(Gen(f.Type, p, depth+1))
		}
	case reflect.UnsafePointer:
		x := new(int)
		v.SetPointer(unsafe.Pointer(x))
	}
	return v
}

// funcWord returns the closure word of a func value (unique per reflect.MakeFunc / closure allocation).
func funcWord(v reflect.Value) unsafe.Pointer {
	if v.IsNil() {
		return nil
	}
	if v.CanAddr() {
		return *(*unsafe.Pointer)(unsafe.Pointer(v.UnsafeAddr()))
	}
	if !v.CanInterface() {
		return unsafe.Pointer(v.Pointer()) // read through an unexported field of a non-addressable struct: code pointer only
	}
	h := reflect.New(v.Type())
	h.Elem().Set(v)
	return *(*unsafe.Pointer)(h.UnsafePointer())
}

// Same is identity-aware equality: bit equality for scalars (NaN equals itself), identity for reference
// kinds, (data,len,cap) for slices, closure identity for funcs, field-wise for structs and arrays.
func Same(a, b reflect.Value) bool {
	if a.IsValid() != b.IsValid() {
		return false
	}
	if !a.IsValid() {
		return true
	}
	if a.Type() != b.Type() {
		return false
	}
	switch a.Kind() {
	case reflect.Bool:
		return a.Bool() == b.Bool()
	case reflect.Int, reflect.Int8, reflect.Int16, reflect.Int32, reflect.Int64:
		return a.Int() == b.Int()
	case reflect.Uint, reflect.Uint8, reflect.Uint16, reflect.Uint32, reflect.Uint64, reflect.Uintptr:
		return a.Uint() == b.Uint()
	case reflect.Float32, reflect.Float64:
		return math.Float64bits(a.Float()) == math.Float64bits(b.Float())
	case reflect.Complex64, reflect.Complex128:
		x, y := a.Complex(), b.Complex()
		return math.Float64bits(real(x)) == math.Float64bits(real(y)) && math.Float64bits(imag(x)) == math.Float64bits(imag(y))
	case reflect.String:
		return a.String() == b.String()
	case reflect.Pointer, reflect.Chan, reflect.Map, reflect.UnsafePointer:
		return a.Pointer() == b.Pointer()
	case reflect.Func:
		return funcWord(a) == funcWord(b)
	case reflect.Slice:
		if a.IsNil() || b.IsNil() {
			return a.IsNil() == b.IsNil()
		}
		return a.Pointer() == b.Pointer() && a.Len() == b.Len() && a.Cap() == b.Cap()
	case reflect.Interface:
		if a.IsNil() || b.IsNil() {
			return a.IsNil() == b.IsNil()
		}
		return Same(a.Elem(), b.Elem())
	case reflect.Struct:
		for i := 0; i < a.NumField(); i++ {
			if !Same(a.Field(i), b.Field(i)) {
				return false
			}
		}
		return true
	case reflect.Array:
		for i := 0; i < a.Len(); i++ {
			if !Same(a.Index(i), b.Index(i)) {
				return false
			}
		}
		return true
	}
	return false
}

// Describe renders a value for failure messages.
func Describe(v reflect.Value) string {
	if !v.IsValid() {
		return "<invalid>"
	}
	switch v.Kind() {
	case reflect.Pointer, reflect.Chan, reflect.Map, reflect.UnsafePointer:
		return fmt.Sprintf("%s@%#x", v.Type(), v.Pointer())
	case reflect.Func:
		return fmt.Sprintf("%s@%p", v.Type(), funcWord(v))
	case reflect.Slice:
		if v.IsNil() {
			return v.Type().String() + "(nil)"
		}
		return fmt.Sprintf("%s@%#x[%d:%d]", v.Type(), v.Pointer(), v.Len(), v.Cap())
	case reflect.Interface:
		if v.IsNil() {
			return v.Type().String() + "(nil)"
		}
		return "iface{" + Describe(v.Elem()) + "}"
	case reflect.Struct, reflect.Array:
		return v.Type().String() + "{...}"
	case reflect.Float32, reflect.Float64:
		return fmt.Sprintf("%s(%x)", v.Type(), math.Float64bits(v.Float()))
	case reflect.Int, reflect.Int8, reflect.Int16, reflect.Int32, reflect.Int64:
		return fmt.Sprintf("%s(%d)", v.Type(), v.Int())
	case reflect.Uint, reflect.Uint8, reflect.Uint16, reflect.Uint32, reflect.Uint64, reflect.Uintptr:
		return fmt.Sprintf("%s(%d)", v.Type(), v.Uint())
	case reflect.String:
		return fmt.Sprintf("%q", v.String())
	case reflect.Bool:
		return fmt.Sprint(v.Bool())
	}
	return v.Type().String()
}

var _ = errors.New
