package execdrv

import (
	"fmt"
	"reflect"
	"runtime"
	"sort"
	"strconv"
	"strings"
	"sync"
	"unsafe"
)

// MockDef is what the generated glue registers for one mock.
type MockDef struct {
	ID        string
	Iface     string
	MockName  string
	New       func() any // zero-value mock: new(K)
	IfaceType reflect.Type
	Stub      bool
	Resets    bool
	Generic   bool
	Labels    []string
	// Unexported hands out the members of the mock that belong to unexported interface methods (method values and
	// pointers to the function fields), obtained inside the mock's own package: name -> func value / *func
	Unexported func(mock any) map[string]any
}

var Registry []MockDef

func Register(m MockDef) { Registry = append(Registry, m) }

// Op is one step of a history. Seeds are expanded deterministically into argument/result values.
type Op struct {
	Kind   string `json:"kind"` // call | read | reset | resetall
	M      int    `json:"m"`
	Seed   uint64 `json:"seed"`
	Behav  string `json:"behav,omitempty"` // ret | panic | nilfunc | nested
	Nested []Op   `json:"nested,omitempty"`
}

// V is a violation found by the run-side oracles.
type V struct {
	Prop   string `json:"property"`
	Oracle string `json:"oracle"`
	Msg    string `json:"msg"`
}

func (v V) String() string { return v.Prop + "/" + v.Oracle + ": " + v.Msg }

type meth struct {
	name     string
	typ      reflect.Type
	call     reflect.Value
	calls    reflect.Value
	reset    reflect.Value
	field    reflect.Value
	tripwire reflect.Value
}

type argTuple []reflect.Value

type snapshot struct {
	m      int
	slice  reflect.Value
	expect []argTuple
	step   int
}

type handle struct {
	def      *MockDef
	ptr      reflect.Value
	methods  []meth
	mutexes  []*sync.RWMutex
	resetAll reflect.Value

	model     [][]argTuple
	snaps     []snapshot
	vs        []V
	step      int
	tripped   []string
	flags     map[string]bool // non-trivial classes observed
	depth     int
	probeSkip bool
}

func gid() uint64 {
	var buf [64]byte
	n := runtime.Stack(buf[:], false)
	f := strings.Fields(string(buf[:n]))
	if len(f) < 2 {
		return 0
	}
	id, _ := strconv.ParseUint(f[1], 10, 64)
	return id
}

var rwMutexType = reflect.TypeOf(sync.RWMutex{})

func newHandle(def *MockDef) (*handle, error) {
	h := &handle{def: def, flags: map[string]bool{}}
	h.ptr = reflect.ValueOf(def.New())
	if h.ptr.Kind() != reflect.Pointer || h.ptr.Elem().Kind() != reflect.Struct {
		return nil, fmt.Errorf("mock %s: New() does not return a pointer to a struct", def.ID)
	}
	st := h.ptr.Elem()
	for i := 0; i < st.NumField(); i++ {
		f := st.Field(i)
		if f.Type() == rwMutexType {
			h.mutexes = append(h.mutexes, (*sync.RWMutex)(unsafe.Pointer(f.UnsafeAddr())))
		}
	}
	it := def.IfaceType
	for i := 0; i < it.NumMethod(); i++ {
		im := it.Method(i)
		m := meth{name: im.Name, typ: im.Type}
		if im.PkgPath != "" {
			// unexported interface method: reflection cannot reach it by name, the glue hands it out
			if def.Unexported == nil {
				continue
			}
			mem := def.Unexported(h.ptr.Interface())
			if mem[im.Name] == nil || mem[im.Name+"Calls"] == nil || mem[im.Name+"Func"] == nil {
				return nil, fmt.Errorf("mock %s: glue does not expose unexported method %s", def.ID, im.Name)
			}
			m.call = reflect.ValueOf(mem[im.Name])
			m.calls = reflect.ValueOf(mem[im.Name+"Calls"])
			m.field = reflect.ValueOf(mem[im.Name+"Func"]).Elem()
			m.reset = h.ptr.MethodByName("Reset" + im.Name + "Calls")
		} else {
			m.call = h.ptr.MethodByName(im.Name)
			m.calls = h.ptr.MethodByName(im.Name + "Calls")
			m.reset = h.ptr.MethodByName("Reset" + im.Name + "Calls")
			m.field = st.FieldByName(im.Name + "Func")
		}
		if !m.call.IsValid() || !m.calls.IsValid() || !m.field.IsValid() {
			return nil, fmt.Errorf("mock %s: method %s, %sCalls or field %sFunc missing", def.ID, im.Name, im.Name, im.Name)
		}
		name := im.Name
		ft := im.Type
		m.tripwire = reflect.MakeFunc(ft, func(in []reflect.Value) []reflect.Value {
			h.tripped = append(h.tripped, name)
			out := make([]reflect.Value, ft.NumOut())
			for i := range out {
				out[i] = reflect.Zero(ft.Out(i))
			}
			return out
		})
		h.methods = append(h.methods, m)
	}
	sort.Slice(h.methods, func(i, j int) bool { return h.methods[i].name < h.methods[j].name })
	h.resetAll = h.ptr.MethodByName("ResetCalls")
	h.model = make([][]argTuple, len(h.methods))
	return h, nil
}

func (h *handle) bad(prop, oracle, format string, a ...any) {
	h.vs = append(h.vs, V{prop, oracle, fmt.Sprintf("[%s step %d] ", h.def.ID, h.step) + fmt.Sprintf(format, a...)})
}

// probeLocks (C06): in a single-goroutine history no internal lock may be held whenever user code runs.
func (h *handle) probeLocks(where string) bool {
	for i, mu := range h.mutexes {
		if !mu.TryLock() {
			h.bad("C06", "no-lock-held", "%s: internal mutex #%d of the mock is held", where, i)
			return false
		}
		mu.Unlock()
	}
	return true
}

func recordOf(recs reflect.Value, i int) (argTuple, bool) {
	if recs.Kind() != reflect.Slice || i >= recs.Len() {
		return nil, false
	}
	r := recs.Index(i)
	if r.Kind() != reflect.Struct {
		return nil, false
	}
	t := make(argTuple, r.NumField())
	for j := range t {
		t[j] = r.Field(j)
	}
	return t, true
}

func sameTuple(a, b argTuple) (bool, int) {
	if len(a) != len(b) {
		return false, -1
	}
	for i := range a {
		if !Same(a[i], b[i]) {
			return false, i
		}
	}
	return true, -1
}

func (h *handle) readCalls(mi int) (reflect.Value, bool) {
	out := h.methods[mi].calls.Call(nil)
	if len(out) != 1 || out[0].Kind() != reflect.Slice {
		h.bad("C04", "accessor-shape", "%sCalls() does not return one slice", h.methods[mi].name)
		return reflect.Value{}, false
	}
	return out[0], true
}

// verifyMethod compares MCalls() of one method with the model.
func (h *handle) verifyMethod(mi int, prop string) bool {
	recs, ok := h.readCalls(mi)
	if !ok {
		return false
	}
	want := h.model[mi]
	name := h.methods[mi].name
	if recs.Len() != len(want) {
		oracle := "record-count"
		if prop == "C08" {
			oracle = "reset-clears-exactly"
			// "one record per call since M was last reset" (C04) is violated as well
			h.bad("C04", "record-count-after-reset", "%sCalls() has %d records after a reset, the model has %d", name, recs.Len(), len(want))
		}
		h.bad(prop, oracle, "%sCalls() has %d records, the model has %d", name, recs.Len(), len(want))
		return false
	}
	for i := range want {
		got, ok := recordOf(recs, i)
		if !ok || len(got) != len(want[i]) {
			h.bad("C04", "record-shape", "%sCalls()[%d] has %d fields for %d parameters", name, i, len(got), len(want[i]))
			return false
		}
		if same, j := sameTuple(got, want[i]); !same {
			h.bad("C04", "record-args", "%sCalls()[%d] field %d is %s, argument %d of call %d was %s", name, i, j, Describe(got[j]), j, i, Describe(want[i][j]))
			return false
		}
	}
	return true
}

func (h *handle) verifyAll(prop string) bool {
	for mi := range h.methods {
		if !h.verifyMethod(mi, prop) {
			return false
		}
	}
	// snapshot stability: slices returned earlier never change
	for _, s := range h.snaps {
		name := h.methods[s.m].name
		if s.slice.Len() != len(s.expect) {
			h.bad("C04", "snapshot-stable", "a slice returned by %sCalls() at step %d changed length", name, s.step)
			return false
		}
		for i := range s.expect {
			got, _ := recordOf(s.slice, i)
			if same, j := sameTuple(got, s.expect[i]); !same {
				h.bad("C04", "snapshot-stable", "record %d (field %d) of the slice returned by %sCalls() at step %d was changed by a later call or reset", i, j, name, s.step)
				return false
			}
		}
	}
	return true
}

func (h *handle) takeSnapshot(mi int) {
	recs, ok := h.readCalls(mi)
	if !ok {
		return
	}
	exp := make([]argTuple, len(h.model[mi]))
	copy(exp, h.model[mi])
	h.snaps = append(h.snaps, snapshot{m: mi, slice: recs, expect: exp, step: h.step})
	if len(exp) > 0 {
		h.flags["snapshot-nonempty"] = true
	}
}

func (h *handle) genArgs(mi int, p *prng) []reflect.Value {
	ft := h.methods[mi].typ
	args := make([]reflect.Value, ft.NumIn())
	for i := range args {
		args[i] = Gen(ft.In(i), p, 0)
	}
	return args
}

// exec runs a list of operations (top level or nested inside a callback).
func (h *handle) exec(ops []Op) {
	for _, op := range ops {
		if len(h.vs) > 0 {
			return
		}
		h.step++
		if len(h.methods) == 0 {
			return
		}
		mi := op.M % len(h.methods)
		switch op.Kind {
		case "read":
			h.takeSnapshot(mi)
			h.verifyMethod(mi, "C04")
		case "reset":
			if !h.def.Resets || !h.methods[mi].reset.IsValid() {
				continue
			}
			if len(h.model[mi]) > 0 {
				h.flags["reset-nonempty"] = true
			}
			h.methods[mi].reset.Call(nil)
			h.model[mi] = nil
			h.verifyAll("C08")
		case "resetall":
			if !h.def.Resets || !h.resetAll.IsValid() {
				continue
			}
			nonEmpty := 0
			for i := range h.model {
				if len(h.model[i]) > 0 {
					nonEmpty++
				}
				h.model[i] = nil
			}
			if nonEmpty >= 2 {
				h.flags["resetall-two-methods"] = true
			}
			h.resetAll.Call(nil)
			h.verifyAll("C08")
		case "call":
			h.doCall(mi, op)
		}
		if h.depth == 0 && len(h.vs) == 0 {
			h.probeLocks("after " + op.Kind)
		}
	}
}

type callbackLog struct {
	count int
	gid   uint64
	args  []reflect.Value
}

func (h *handle) doCall(mi int, op Op) {
	m := &h.methods[mi]
	p := &prng{s: op.Seed}
	args := h.genArgs(mi, p)
	ft := m.typ
	results := make([]reflect.Value, ft.NumOut())
	for i := range results {
		results[i] = Gen(ft.Out(i), p, 0)
	}
	panicVal := new(int)
	log := &callbackLog{}
	behav := op.Behav
	if behav == "" {
		behav = "ret"
	}
	// configure the function fields: the called method gets the recorder (or nil), all others a tripwire
	saved := make([]reflect.Value, len(h.methods))
	for k := range h.methods {
		saved[k] = reflect.ValueOf(h.methods[k].field.Interface())
		if k != mi {
			h.methods[k].field.Set(h.methods[k].tripwire)
		}
	}
	defer func() {
		for k := range h.methods {
			if saved[k].IsValid() {
				h.methods[k].field.Set(saved[k])
			}
		}
	}()
	trippedBefore := len(h.tripped)
	expectIdx := len(h.model[mi])
	if behav == "nilfunc" {
		m.field.Set(reflect.Zero(m.field.Type()))
	} else {
		rec := reflect.MakeFunc(ft, func(in []reflect.Value) []reflect.Value {
			log.count++
			log.gid = gid()
			log.args = in
			if log.count == 1 {
				// user code is running: no internal lock may be held (C06), the call is already recorded (C04)
				// (if a lock is held, touching the mock again from here could block for ever: stop at the report)
				if !h.probeLocks("inside " + m.name + "Func") {
					if behav == "panic" {
						panic(panicVal)
					}
					return results
				}
				if recs, ok := h.readCalls(mi); ok {
					if recs.Len() != expectIdx+1 {
						h.bad("C04", "recorded-before-func", "inside %sFunc, %sCalls() has %d records, expected %d (the running call included)", m.name, m.name, recs.Len(), expectIdx+1)
					} else if got, ok := recordOf(recs, expectIdx); ok {
						if same, j := sameTuple(got, argTuple(args)); !same {
							h.bad("C04", "recorded-before-func", "inside %sFunc, the last record differs from the running call in field %d", m.name, j)
						}
					}
				}
				if behav == "nested" && h.depth < 2 && len(h.vs) == 0 {
					h.depth++
					h.flags["nested"] = true
					for _, n := range op.Nested {
						if n.Kind == "call" && n.M%len(h.methods) == mi {
							h.flags["reenter-same-method"] = true
						}
						if n.Kind == "reset" || n.Kind == "resetall" {
							h.flags["reset-inside-callback"] = true
						}
					}
					h.exec(op.Nested)
					h.depth--
				}
			}
			if behav == "panic" {
				panic(panicVal)
			}
			return results
		})
		m.field.Set(rec)
	}
	// the model records the call before the function runs
	if behav != "nilfunc" || h.def.Stub {
		h.model[mi] = append(h.model[mi], argTuple(args))
	}
	var got []reflect.Value
	var recovered any
	panicked := true
	callerGid := gid()
	func() {
		defer func() {
			if panicked {
				recovered = recover()
			}
		}()
		if ft.IsVariadic() {
			got = m.call.CallSlice(args)
		} else {
			got = m.call.Call(args)
		}
		panicked = false
	}()
	name := h.def.MockName + "." + m.name
	// whatever happened (return or panic): no internal lock may be left held; probe before touching the mock again
	if h.depth == 0 && !h.probeLocks("after "+name+" returned/panicked") {
		return
	}
	tripped := h.tripped[trippedBefore:]
	if h.depth == 0 && len(tripped) > 0 && behav != "nested" {
		h.bad("C03", "no-other-func", "calling %s invoked the function field of %v", name, tripped)
	}
	switch behav {
	case "nilfunc":
		h.flags["nilfunc"] = true
		if h.def.Stub {
			if panicked {
				h.bad("C07", "stub-no-panic", "%s with a nil %sFunc panicked under -stub: %v", name, m.name, recovered)
				return
			}
			for i, r := range got {
				if !r.IsZero() {
					h.bad("C07", "stub-zero-results", "%s with a nil %sFunc returned non-zero result %d: %s", name, m.name, i, Describe(r))
				}
			}
			if len(got) != ft.NumOut() {
				h.bad("C07", "stub-zero-results", "%s returned %d results, signature has %d", name, len(got), ft.NumOut())
			}
			if ft.NumOut() > 0 && expectIdx > 0 {
				h.flags["nilfunc-results-after-call"] = true
			}
			if !h.verifyMethod(mi, "C07") {
				// "recorded like any other call" (C07) is also "one record per call" (C04)
				last := h.vs[len(h.vs)-1]
				h.vs = append(h.vs, V{"C04", last.Oracle, last.Msg + " (call with a nil function field under -stub)"})
				return
			}
		} else {
			if !panicked {
				h.bad("C07", "nil-func-panics", "%s with a nil %sFunc did not panic", name, m.name)
				return
			}
			msg, ok := recovered.(string)
			if !ok {
				if e, isErr := recovered.(error); isErr {
					h.bad("C07", "panic-identifies", "%s with a nil %sFunc panicked with %T %q instead of the identifying message", name, m.name, recovered, e.Error())
				} else {
					h.bad("C07", "panic-identifies", "%s with a nil %sFunc panicked with a %T", name, m.name, recovered)
				}
				return
			}
			for _, want := range []string{h.def.MockName, m.name + "Func", h.def.Iface + "." + m.name} {
				if !strings.Contains(msg, want) {
					h.bad("C07", "panic-identifies", "panic message %q of %s does not name %q", msg, name, want)
				}
			}
			if ft.NumOut() > 0 && expectIdx > 0 {
				h.flags["nilfunc-results-after-call"] = true
			}
			// whether the panicking call counts as recorded is not stated: resynchronise the model
			if recs, ok := h.readCalls(mi); ok {
				switch recs.Len() {
				case len(h.model[mi]):
				case len(h.model[mi]) + 1:
					if gotRec, ok := recordOf(recs, recs.Len()-1); ok {
						if same, j := sameTuple(gotRec, argTuple(args)); !same {
							h.bad("C04", "record-args", "record of the panicking nil-func call differs in field %d", j)
						}
					}
					h.model[mi] = append(h.model[mi], argTuple(args))
				default:
					h.bad("C04", "record-count", "%sCalls() has %d records after a nil-func call, the model has %d", m.name, recs.Len(), len(h.model[mi]))
				}
			}
		}
	default:
		// C03: delegated exactly once, on the caller's goroutine, with the very same values
		if log.count != 1 {
			h.bad("C03", "invoked-once", "%s invoked %sFunc %d times", name, m.name, log.count)
			return
		}
		if log.gid != callerGid {
			h.bad("C03", "same-goroutine", "%sFunc ran on goroutine %d, the caller is goroutine %d", m.name, log.gid, callerGid)
		}
		if len(log.args) != len(args) {
			h.bad("C03", "args-forwarded", "%sFunc received %d arguments, %d were passed", m.name, len(log.args), len(args))
			return
		}
		for i := range args {
			if !Same(log.args[i], args[i]) {
				h.bad("C03", "args-forwarded", "%sFunc argument %d is %s, the caller passed %s", m.name, i, Describe(log.args[i]), Describe(args[i]))
				return
			}
		}
		if behav == "panic" {
			h.flags["panic"] = true
			if !panicked {
				h.bad("C03", "panic-propagates", "%sFunc panicked but %s returned normally", m.name, name)
			} else if recovered != any(panicVal) {
				h.bad("C03", "panic-propagates", "%s panicked with %v, not with the value %sFunc panicked with", name, recovered, m.name)
			}
		} else {
			if panicked {
				h.bad("C03", "no-spurious-panic", "%s panicked although %sFunc returned: %v", name, m.name, recovered)
				return
			}
			if len(got) != len(results) {
				h.bad("C03", "results-returned", "%s returned %d results, %sFunc returned %d", name, len(got), m.name, len(results))
				return
			}
			for i := range results {
				if !Same(got[i], results[i]) {
					h.bad("C03", "results-returned", "%s result %d is %s, %sFunc returned %s", name, i, Describe(got[i]), m.name, Describe(results[i]))
					return
				}
			}
		}
		if len(results) > 0 {
			h.flags["results"] = true
		}
		if ft.IsVariadic() && args[len(args)-1].Len() > 0 {
			h.flags["variadic-nonempty"] = true
		}
		for i := 0; i < ft.NumIn(); i++ {
			for j := i + 1; j < ft.NumIn(); j++ {
				if ft.In(i) == ft.In(j) && !Same(args[i], args[j]) {
					h.flags["same-typed-params"] = true
				}
			}
		}
	}
	if len(h.vs) == 0 {
		h.verifyAll("C04")
	}
	if expectIdx >= 2 {
		h.flags["three-calls-one-method"] = true
	}
}

// RunHistory executes a sequential history on a fresh zero-value mock.
func RunHistory(def *MockDef, ops []Op) (vs []V, flags map[string]bool, err error) {
	h, err := newHandle(def)
	if err != nil {
		return nil, nil, err
	}
	// the zero-value mock reports no calls
	for mi := range h.methods {
		if recs, ok := h.readCalls(mi); ok && recs.Len() != 0 {
			h.bad("C04", "zero-value-empty", "a fresh %s reports %d calls of %s", def.MockName, recs.Len(), h.methods[mi].name)
		}
	}
	h.probeLocks("fresh mock")
	h.exec(ops)
	return h.vs, h.flags, nil
}
