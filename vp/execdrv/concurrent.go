package execdrv

import (
	"fmt"
	"reflect"
	"sync"
)

// Program is a concurrent case: one list of operations per goroutine. Programs are fixed before the
// goroutines start; callbacks are pure (they return precomputed values and touch nothing shared), so the
// harness adds no happens-before edge that could hide a race inside the generated code.
type Program struct {
	Mock       int    `json:"mock"`
	Goroutines [][]Op `json:"goroutines"`
	WithResets bool   `json:"with_resets"`
	BlockFirst bool   `json:"block_first,omitempty"` // C06: goroutine 0's first call parks inside its function until all others are done
	NilFuncs   []int  `json:"nil_funcs,omitempty"`   // -stub mocks: methods (index mod #methods) whose function field stays nil for the whole program
}

type gCall struct {
	m    int
	args argTuple
}

type gLog struct {
	calls []gCall                 // calls made, in program order
	snaps map[int][]reflect.Value // per method: slices read, in program order
}

// RunProgram executes the program with real goroutines (meant to run under the race detector) and checks
// the accounting conditions after quiescence.
func RunProgram(def *MockDef, prog *Program) (vs []V, flags map[string]bool, err error) {
	h, err := newHandle(def)
	if err != nil {
		return nil, nil, err
	}
	flags = map[string]bool{}
	if len(h.methods) == 0 {
		return nil, flags, nil
	}
	// pure callbacks, installed before any goroutine starts
	for k := range h.methods {
		ft := h.methods[k].typ
		zero := make([]reflect.Value, ft.NumOut())
		for i := range zero {
			zero[i] = reflect.Zero(ft.Out(i))
		}
		h.methods[k].field.Set(reflect.MakeFunc(ft, func(in []reflect.Value) []reflect.Value { return zero }))
	}
	if def.Stub {
		// a stubbed mock records and returns zero values when the function is nil: that path runs concurrently too
		for _, k := range prog.NilFuncs {
			m := &h.methods[k%len(h.methods)]
			m.field.Set(reflect.Zero(m.field.Type()))
			flags["nil-func-concurrent"] = true
		}
	}
	n := len(prog.Goroutines)
	logs := make([]*gLog, n)
	type prepared struct {
		op   Op
		mi   int
		args []reflect.Value
	}
	plans := make([][]prepared, n)
	callsPerMethod := make([]int, len(h.methods))
	readers := 0
	for g := range prog.Goroutines {
		logs[g] = &gLog{snaps: map[int][]reflect.Value{}}
		for _, op := range prog.Goroutines[g] {
			mi := op.M % len(h.methods)
			pr := prepared{op: op, mi: mi}
			if op.Kind == "call" {
				p := &prng{s: op.Seed}
				pr.args = h.genArgs(mi, p)
				callsPerMethod[mi]++
			}
			if op.Kind == "read" {
				readers++
			}
			if (op.Kind == "reset" || op.Kind == "resetall") && (!prog.WithResets || !def.Resets) {
				continue
			}
			plans[g] = append(plans[g], pr)
		}
	}
	var start, done sync.WaitGroup
	start.Add(1)
	for g := 0; g < n; g++ {
		done.Add(1)
		go func(g int) {
			defer done.Done()
			lg := logs[g]
			start.Wait()
			for _, pr := range plans[g] {
				m := &h.methods[pr.mi]
				switch pr.op.Kind {
				case "call":
					lg.calls = append(lg.calls, gCall{pr.mi, argTuple(pr.args)})
					if m.typ.IsVariadic() {
						m.call.CallSlice(pr.args)
					} else {
						m.call.Call(pr.args)
					}
				case "read":
					out := m.calls.Call(nil)
					lg.snaps[pr.mi] = append(lg.snaps[pr.mi], out[0])
					// read every record of the snapshot (and of the previous one): a returned slice is never
					// written again, so this must not race with later appends or resets
					for _, sl := range lg.snaps[pr.mi][maxInt(0, len(lg.snaps[pr.mi])-2):] {
						if sl.Len() > 0 {
							tmp := reflect.New(sl.Type().Elem()).Elem()
							for i := 0; i < sl.Len(); i++ {
								tmp.Set(sl.Index(i))
							}
						}
					}
				case "reset":
					if m.reset.IsValid() {
						m.reset.Call(nil)
					}
				case "resetall":
					if h.resetAll.IsValid() {
						h.resetAll.Call(nil)
					}
				}
			}
		}(g)
	}
	start.Done()
	done.Wait()

	bad := func(oracle, format string, a ...any) {
		vs = append(vs, V{"C05", oracle, fmt.Sprintf("[%s] ", def.ID) + fmt.Sprintf(format, a...)})
	}
	resets := prog.WithResets && def.Resets
	for mi := range h.methods {
		name := h.methods[mi].name
		final := h.methods[mi].calls.Call(nil)[0]
		// all calls to this method, by goroutine
		var perG [][]argTuple
		total := 0
		for g := 0; g < n; g++ {
			var l []argTuple
			for _, c := range logs[g].calls {
				if c.m == mi {
					l = append(l, c.args)
				}
			}
			perG = append(perG, l)
			total += len(l)
		}
		if !resets && final.Len() != total {
			bad("no-lost-record", "%d calls were made to %s by %d goroutines but %sCalls() has %d records after quiescence", total, name, n, name, final.Len())
			continue
		}
		// every record equals the arguments of exactly one call and each goroutine's calls appear in its program
		// order: search for an assignment record -> (goroutine, call index). Argument tuples need not be unique
		// (parameterless methods), so this is an exact search with memoisation, not a greedy match.
		recs := make([]argTuple, final.Len())
		shapeOK := true
		for i := range recs {
			r, ok := recordOf(final, i)
			if !ok {
				bad("record-shape", "%sCalls()[%d] is not a struct", name, i)
				shapeOK = false
				break
			}
			recs[i] = r
		}
		if !shapeOK {
			break
		}
		next := make([]int, n)
		started := make([]bool, n)
		dead := map[string]bool{}
		deepest := 0
		var search func(i int) bool
		search = func(i int) bool {
			if i > deepest {
				deepest = i
			}
			if i == len(recs) {
				for g := 0; g < n; g++ {
					if (!resets || started[g]) && next[g] != len(perG[g]) {
						return false
					}
				}
				return true
			}
			key := fmt.Sprint(i, next, started)
			if dead[key] {
				return false
			}
			for g := 0; g < n; g++ {
				lo, hi := next[g], next[g]+1
				if resets && !started[g] {
					hi = len(perG[g]) // earlier calls of g may have been cleared by a reset
				}
				for k := lo; k < hi && k < len(perG[g]); k++ {
					if same, _ := sameTuple(recs[i], perG[g][k]); !same {
						continue
					}
					on, os := next[g], started[g]
					next[g], started[g] = k+1, true
					if search(i + 1) {
						return true
					}
					next[g], started[g] = on, os
				}
			}
			dead[key] = true
			return false
		}
		if !search(0) {
			if !resets && len(recs) == total {
				bad("record-is-one-call", "the %d records of %sCalls() cannot be matched one-to-one with the calls in every goroutine's program order (first unmatched record: #%d) - torn, duplicated or reordered record", len(recs), name, deepest)
			} else {
				bad("record-is-one-call", "the records of %sCalls() are not an order-preserving selection of each goroutine's calls (first unmatched record: #%d)", name, deepest)
			}
			break
		}
		if !resets {
			// snapshots: prefix-related in program order, and prefixes of the final list
			for g := 0; g < n; g++ {
				prev := -1
				for si, s := range logs[g].snaps[mi] {
					if s.Len() < prev {
						bad("snapshot-prefix", "goroutine %d: snapshot %d of %sCalls() is shorter (%d) than its earlier snapshot (%d)", g, si, name, s.Len(), prev)
						break
					}
					prev = s.Len()
					if s.Len() > final.Len() {
						bad("snapshot-prefix", "goroutine %d: a snapshot of %sCalls() has %d records, the final list only %d", g, name, s.Len(), final.Len())
						break
					}
					for i := 0; i < s.Len(); i++ {
						a, _ := recordOf(s, i)
						b, _ := recordOf(final, i)
						if same, _ := sameTuple(a, b); !same {
							bad("snapshot-prefix", "goroutine %d: record %d of a snapshot of %sCalls() differs from the final list", g, i, name)
							break
						}
					}
				}
			}
		}
		callers := 0
		for g := 0; g < n; g++ {
			if len(perG[g]) > 0 {
				callers++
			}
		}
		if callers >= 2 && readers > 0 {
			flags["two-callers-one-method-with-reader"] = true
		}
		if len(vs) > 0 {
			break
		}
	}
	return vs, flags, nil
}
