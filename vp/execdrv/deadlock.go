package execdrv

import (
	"fmt"
	"reflect"
	"regexp"
	"runtime"
	"strconv"
	"strings"
	"sync"
	"sync/atomic"
	"time"
)

// RunSchedProgram (C06): real goroutines operate on one mock - calls, accessors, resets - optionally while one
// call is parked inside its MFunc on a harness gate. The oracle is deadlock freedom: if the program does not
// finish, the goroutine dump is inspected; only when EVERY unfinished worker is parked in a sync wait
// (RWMutex/Mutex/semacquire) - or, for the gate holder, on the gate - in two dumps taken one second apart is a
// deadlock reported. A slow run is never a violation (it ends as a harness error = inconclusive).
func RunSchedProgram(def *MockDef, prog *Program) (vs []V, flags map[string]bool, err error) {
	h, err := newHandle(def)
	if err != nil {
		return nil, nil, err
	}
	flags = map[string]bool{}
	if len(h.methods) == 0 {
		return nil, flags, nil
	}
	gate := make(chan struct{})
	var gateArmed atomic.Bool
	var gateEntered atomic.Bool
	var gateOwner atomic.Uint64
	gateMethod := -1
	if prog.BlockFirst && len(prog.Goroutines) > 0 {
		for _, op := range prog.Goroutines[0] {
			if op.Kind == "call" {
				gateMethod = op.M % len(h.methods)
				break
			}
		}
	}
	for k := range h.methods {
		ft := h.methods[k].typ
		zero := make([]reflect.Value, ft.NumOut())
		for i := range zero {
			zero[i] = reflect.Zero(ft.Out(i))
		}
		k := k
		h.methods[k].field.Set(reflect.MakeFunc(ft, func(in []reflect.Value) []reflect.Value {
			// only goroutine 0 parks, and only once
			if k == gateMethod && gateArmed.Load() && gid() == gateOwner.Load() && gateArmed.CompareAndSwap(true, false) {
				gateEntered.Store(true)
				<-gate // parked inside user code: the mock must stay fully usable for everybody else
			}
			return zero
		}))
	}
	n := len(prog.Goroutines)
	type prepared struct {
		op   Op
		mi   int
		args []reflect.Value
	}
	plans := make([][]prepared, n)
	for g := range prog.Goroutines {
		for _, op := range prog.Goroutines[g] {
			mi := op.M % len(h.methods)
			if (op.Kind == "reset" || op.Kind == "resetall") && !def.Resets {
				continue
			}
			pr := prepared{op: op, mi: mi}
			if op.Kind == "call" {
				pr.args = h.genArgs(mi, &prng{s: op.Seed})
			}
			plans[g] = append(plans[g], pr)
		}
	}
	gids := make([]atomic.Uint64, n)
	finished := make([]atomic.Bool, n)
	var start sync.WaitGroup
	start.Add(1)
	othersDone := make(chan struct{})
	allDone := make(chan struct{})
	var others, all sync.WaitGroup
	for g := 0; g < n; g++ {
		all.Add(1)
		if !(prog.BlockFirst && g == 0) {
			others.Add(1)
		}
		go func(g int) {
			defer all.Done()
			if !(prog.BlockFirst && g == 0) {
				defer others.Done()
			}
			gids[g].Store(gid())
			if g == 0 {
				gateOwner.Store(gid())
			}
			start.Wait()
			for _, pr := range plans[g] {
				m := &h.methods[pr.mi]
				switch pr.op.Kind {
				case "call":
					if prog.BlockFirst && g == 0 && pr.mi == gateMethod && !gateEntered.Load() {
						gateArmed.Store(true)
					}
					if m.typ.IsVariadic() {
						m.call.CallSlice(pr.args)
					} else {
						m.call.Call(pr.args)
					}
				case "read":
					m.calls.Call(nil)
				case "reset":
					if m.reset.IsValid() {
						m.reset.Call(nil)
					}
				case "resetall":
					if h.resetAll.IsValid() {
						h.resetAll.Call(nil)
					}
				}
			}
			finished[g].Store(true)
		}(g)
	}
	go func() { others.Wait(); close(othersDone) }()
	go func() { all.Wait(); close(allDone) }()
	start.Done()

	// wait reports: nil = finished; a dump = deadlock
	wait := func(ch chan struct{}, skipGateHolder bool) (string, error) {
		deadline := time.Now().Add(90 * time.Second)
		suspect := ""
		for {
			select {
			case <-ch:
				return "", nil
			case <-time.After(1 * time.Second):
			}
			dump := allStacks()
			blocked, total := 0, 0
			var desc []string
			for g := 0; g < n; g++ {
				if finished[g].Load() {
					continue
				}
				if skipGateHolder && g == 0 {
					continue
				}
				total++
				st := goroutineState(dump, gids[g].Load())
				if isSyncWait(st) {
					blocked++
				}
				desc = append(desc, fmt.Sprintf("g%d:%s", g, st))
			}
			key := strings.Join(desc, " ")
			if total > 0 && blocked == total {
				if suspect == key {
					return "workers parked for ever: " + key + "\n" + trimDump(dump), nil
				}
				suspect = key
			} else {
				suspect = ""
			}
			if time.Now().After(deadline) {
				return "", fmt.Errorf("program did not finish within the harness deadline and is not provably deadlocked: %s", key)
			}
		}
	}
	if prog.BlockFirst {
		dump, werr := wait(othersDone, true)
		if werr != nil {
			close(gate)
			return nil, flags, werr
		}
		if dump != "" {
			vs = append(vs, V{"C06", "blocked-callback-blocks-others", fmt.Sprintf("[%s] while a call of %s is parked inside its function, other goroutines can no longer use the mock: %s", def.ID, h.methods[maxInt(gateMethod, 0)].name, dump)})
			return vs, flags, nil // the gate stays closed: the stuck goroutines leak with this mock only
		}
		if gateEntered.Load() {
			flags["parked-callback-others-finished"] = true
		}
		close(gate)
	}
	dump, werr := wait(allDone, false)
	if werr != nil {
		return nil, flags, werr
	}
	if dump != "" {
		vs = append(vs, V{"C06", "deadlock-free", fmt.Sprintf("[%s] deadlock inside generated code: %s", def.ID, dump)})
		return vs, flags, nil
	}
	callers := map[int]int{}
	for g := range plans {
		seen := map[int]bool{}
		for _, pr := range plans[g] {
			if pr.op.Kind == "call" && !seen[pr.mi] {
				seen[pr.mi] = true
				callers[pr.mi]++
			}
		}
	}
	for _, c := range callers {
		if c >= 2 {
			flags["concurrent-same-method"] = true
		}
	}
	return nil, flags, nil
}

func maxInt(a, b int) int {
	if a > b {
		return a
	}
	return b
}

func allStacks() string {
	buf := make([]byte, 1<<20)
	for {
		n := runtime.Stack(buf, true)
		if n < len(buf) {
			return string(buf[:n])
		}
		buf = make([]byte, 2*len(buf))
	}
}

var goroutineHdr = regexp.MustCompile(`(?m)^goroutine (\d+) \[([^\]]*)\]:$`)

// goroutineState returns the wait reason of a goroutine in a dump ("" if it is not there).
func goroutineState(dump string, id uint64) string {
	for _, m := range goroutineHdr.FindAllStringSubmatch(dump, -1) {
		if v, _ := strconv.ParseUint(m[1], 10, 64); v == id {
			st := m[2]
			if i := strings.Index(st, ","); i >= 0 {
				st = st[:i]
			}
			return st
		}
	}
	return ""
}

func isSyncWait(state string) bool {
	switch state {
	case "semacquire", "sync.Mutex.Lock", "sync.RWMutex.Lock", "sync.RWMutex.RLock", "sync.Cond.Wait", "sync.WaitGroup.Wait":
		return true
	}
	return false
}

// trimDump keeps the goroutines that are inside generated code.
func trimDump(dump string) string {
	var keep []string
	for _, g := range strings.Split(dump, "\n\n") {
		if strings.Contains(g, "execmod/w") && !strings.Contains(g, "RunSchedProgram(") {
			lines := strings.Split(g, "\n")
			if len(lines) > 12 {
				lines = lines[:12]
			}
			keep = append(keep, strings.Join(lines, "\n"))
		}
		if len(keep) >= 4 {
			break
		}
	}
	return strings.Join(keep, "\n--\n")
}
