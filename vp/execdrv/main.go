package execdrv

import (
	"crypto/sha256"
	"encoding/hex"
	"encoding/json"
	"fmt"
	"os"
	"path/filepath"
	"sort"
	"testing"

	"pgregory.net/rapid"
)

type stats struct {
	Prop        string         `json:"property"`
	Shard       string         `json:"shard"`
	Evaluations int            `json:"evaluations"`
	NonTrivial  []string       `json:"nontrivial_hashes"`
	Labels      map[string]int `json:"labels"`
	Notes       map[string]int `json:"notes"`
	Samples     []any          `json:"samples"`
	Invalid     int            `json:"invalid_worlds"`
}

// FailCase is what a failing run leaves behind (and what Replay consumes).
type FailCase struct {
	Prop      string   `json:"property"`
	MockID    string   `json:"mock_id"`
	Ops       []Op     `json:"ops,omitempty"`
	Program   *Program `json:"program,omitempty"`
	Mode      string   `json:"mode,omitempty"`     // "sched": Program ran under the harness-owned scheduler with Schedule
	Schedule  []int    `json:"schedule,omitempty"` // the choice made at every scheduling decision with >1 enabled task
	Trace     []string `json:"trace,omitempty"`
	Violation *V       `json:"violation,omitempty"`
}

type drawer struct{ t *rapid.T }

func (d drawer) bits(k int) int {
	v := 0
	for i := 0; i < k; i++ {
		v <<= 1
		if rapid.Bool().Draw(d.t, "b") {
			v |= 1
		}
	}
	return v
}
func (d drawer) intn(n int) int {
	if n <= 1 {
		return 0
	}
	k := 3
	for 1<<(k-3) < n {
		k++
	}
	return d.bits(k) % n
}
func (d drawer) chance(pct int) bool { return 99-d.bits(7)*100/128 < pct }
func (d drawer) seed() uint64        { return rapid.Uint64().Draw(d.t, "seed") }

func (d drawer) op(prop string, def *MockDef, nm int, depth int) Op {
	op := Op{M: d.intn(nm), Seed: d.seed()}
	k := d.intn(100)
	resetW, resetAllW, readW := 8, 4, 20
	if prop == "C08" {
		resetW, resetAllW, readW = 20, 10, 20
	}
	if !def.Resets {
		resetW, resetAllW = 0, 0
	}
	switch {
	case k < resetW:
		op.Kind = "reset"
	case k < resetW+resetAllW:
		op.Kind = "resetall"
	case k < resetW+resetAllW+readW:
		op.Kind = "read"
	default:
		op.Kind = "call"
		b := d.intn(100)
		var nilW, panicW, nestedW int
		switch prop {
		case "C03":
			nilW, panicW, nestedW = 5, 20, 10
		case "C06":
			nilW, panicW, nestedW = 3, 7, 60
		case "C07":
			nilW, panicW, nestedW = 50, 8, 5
		default:
			nilW, panicW, nestedW = 15, 15, 20
		}
		switch {
		case b < nilW:
			op.Behav = "nilfunc"
		case b < nilW+panicW:
			op.Behav = "panic"
		case b < nilW+panicW+nestedW && depth < 2:
			op.Behav = "nested"
			n := 1 + d.intn(3)
			for i := 0; i < n; i++ {
				no := d.op(prop, def, nm, depth+1)
				if no.Behav == "panic" || no.Behav == "nilfunc" {
					no.Behav = "ret"
				}
				if prop == "C06" && d.chance(40) {
					no.Kind, no.M, no.Behav = "call", op.M, "ret" // re-enter the same method
				}
				op.Nested = append(op.Nested, no)
			}
		default:
			op.Behav = "ret"
		}
	}
	return op
}

func caseHash(id string, v any) string {
	b, _ := json.Marshal(v)
	h := sha256.Sum256(append([]byte(id+"\x00"), b...))
	return hex.EncodeToString(h[:8])
}

func nonTrivial(prop string, f map[string]bool) bool {
	switch prop {
	case "C03":
		return f["same-typed-params"] || f["variadic-nonempty"] || f["results"] || f["panic"]
	case "C04":
		return (f["three-calls-one-method"] && f["snapshot-nonempty"]) || f["nested"] || f["panic"]
	case "C05":
		return f["two-callers-one-method-with-reader"] || f["preempted"]
	case "C06":
		return f["reenter-same-method"] || f["reset-inside-callback"] || f["parked-callback-others-finished"] || f["preempted"]
	case "C07":
		return f["nilfunc-results-after-call"]
	case "C08":
		return f["reset-nonempty"] || f["resetall-two-methods"]
	}
	return false
}

// Main runs one shard of a run-side campaign (called from the generated runner test).
func Main(t *testing.T) {
	prop := os.Getenv("VP_PROP")
	dir := os.Getenv("VP_SHARD_DIR")
	if prop == "" || dir == "" {
		t.Skip("VP_PROP / VP_SHARD_DIR not set")
	}
	if len(Registry) == 0 {
		t.Fatal("no mocks registered")
	}
	maxLen := 24
	if os.Getenv("VP_TIER") == "thorough" {
		maxLen = 60
	}
	st := &stats{Prop: prop, Shard: os.Getenv("VP_SHARD"), Labels: map[string]int{}, Notes: map[string]int{}}
	nt := map[string]bool{}
	failed := false
	var first *V
	writeStats := func() {
		st.NonTrivial = st.NonTrivial[:0]
		for k := range nt {
			st.NonTrivial = append(st.NonTrivial, k)
		}
		sort.Strings(st.NonTrivial)
		b, _ := json.MarshalIndent(st, "", " ")
		_ = os.WriteFile(filepath.Join(dir, "stats.json"), b, 0o644)
	}
	flushStats.Store(&writeStats)
	defer writeStats()
	rapid.Check(t, func(rt *rapid.T) {
		d := drawer{rt}
		mi := d.intn(len(Registry))
		def := &Registry[mi]
		nm := 0
		for i := 0; i < def.IfaceType.NumMethod(); i++ {
			if def.IfaceType.Method(i).PkgPath == "" || def.Unexported != nil {
				nm++
			}
		}
		if nm == 0 {
			nm = 1
		}
		fc := &FailCase{Prop: prop, MockID: def.ID}
		var vs []V
		var flags map[string]bool
		var err error
		if os.Getenv("VP_MODE") == "sched" {
			// harness-owned schedules: 2-3 tasks x <=4 operations, rapid draws which enabled task proceeds
			prog := &Program{Mock: mi, WithResets: def.Resets, BlockFirst: prop == "C06" && d.chance(50)}
			ng := 2 + d.intn(2)
			for g := 0; g < ng; g++ {
				n := 1 + d.intn(4)
				var ops []Op
				for i := 0; i < n; i++ {
					op := Op{M: d.intn(nm), Seed: d.seed(), Kind: "call", Behav: "ret"}
					k := d.intn(100)
					switch {
					case k < 25:
						op.Kind = "read"
					case k < 35 && def.Resets:
						op.Kind = "reset"
					case k < 42 && def.Resets:
						op.Kind = "resetall"
					}
					if d.chance(65) {
						op.M = 0
					}
					ops = append(ops, op)
				}
				if g == 0 && prog.BlockFirst {
					ops = append([]Op{{M: 0, Seed: d.seed(), Kind: "call", Behav: "ret"}}, ops...)
				}
				prog.Goroutines = append(prog.Goroutines, ops)
			}
			var trace []string
			fc.Program, fc.Mode = prog, "sched"
			done := watchScheduled(fc, "scheduled program")
			vs, flags, trace, err = RunScheduled(def, prog, func(n int) int {
				c := d.intn(n)
				fc.Schedule = append(fc.Schedule, c)
				return c
			})
			done()
			fc.Trace = trace
		} else if prop == "C05" {
			prog := &Program{Mock: mi, WithResets: def.Resets && d.chance(35)}
			ng := 2 + d.intn(5)
			for g := 0; g < ng; g++ {
				n := 1 + d.intn(8)
				var ops []Op
				for i := 0; i < n; i++ {
					op := Op{M: d.intn(nm), Seed: d.seed(), Kind: "call", Behav: "ret"}
					k := d.intn(100)
					switch {
					case k < 25:
						op.Kind = "read"
					case k < 33 && prog.WithResets:
						op.Kind = "reset"
					case k < 37 && prog.WithResets:
						op.Kind = "resetall"
					}
					if d.chance(50) {
						op.M = 0 // concentrate on one method so goroutines really contend
					}
					ops = append(ops, op)
				}
				prog.Goroutines = append(prog.Goroutines, ops)
			}
			if def.Stub && d.chance(40) {
				for k := 0; k < 1+d.intn(2); k++ {
					prog.NilFuncs = append(prog.NilFuncs, d.intn(nm))
				}
			}
			fc.Program = prog
			// the race detector kills the process: leave the input behind before running it
			if b, e := json.Marshal(fc); e == nil {
				_ = os.WriteFile(filepath.Join(dir, "current.json"), b, 0o644)
			}
			vs, flags, err = RunProgram(def, prog)
		} else if prop == "C06" && d.chance(35) {
			// schedules: several goroutines on one mock, optionally with one call parked inside its function
			prog := &Program{Mock: mi, WithResets: def.Resets, BlockFirst: d.chance(50)}
			ng := 2 + d.intn(4)
			for g := 0; g < ng; g++ {
				n := 1 + d.intn(6)
				var ops []Op
				for i := 0; i < n; i++ {
					op := Op{M: d.intn(nm), Seed: d.seed(), Kind: "call", Behav: "ret"}
					k := d.intn(100)
					switch {
					case k < 20:
						op.Kind = "read"
					case k < 35 && def.Resets:
						op.Kind = "reset"
					case k < 50 && def.Resets:
						op.Kind = "resetall"
					}
					if d.chance(50) {
						op.M = 0
					}
					ops = append(ops, op)
				}
				if g == 0 && prog.BlockFirst {
					ops = append([]Op{{M: 0, Seed: d.seed(), Kind: "call", Behav: "ret"}}, ops...)
				}
				prog.Goroutines = append(prog.Goroutines, ops)
			}
			fc.Program = prog
			vs, flags, err = RunSchedProgram(def, prog)
		} else {
			n := 2 + d.intn(maxLen)
			for i := 0; i < n; i++ {
				fc.Ops = append(fc.Ops, d.op(prop, def, nm, 0))
			}
			done := watch(fc, "sequential history")
			vs, flags, err = RunHistory(def, fc.Ops)
			done()
		}
		if err != nil {
			st.Invalid++
			st.Notes["harness_error:"+err.Error()]++
			return
		}
		if !failed {
			st.Evaluations++
			for _, l := range def.Labels {
				st.Labels[l]++
			}
			for f := range flags {
				st.Labels["history:"+f]++
			}
			if nonTrivial(prop, flags) {
				if fc.Program != nil {
					nt[caseHash(def.ID, fc.Program)] = true
				} else {
					nt[caseHash(def.ID, fc.Ops)] = true
				}
				if len(st.Samples) < 3 {
					st.Samples = append(st.Samples, map[string]any{"mock": def.ID, "interface": def.IfaceType.String(), "stub": def.Stub, "with_resets": def.Resets, "ops": fc.Ops, "program": fc.Program})
				}
			}
			for _, v := range vs {
				if v.Prop != prop {
					st.Notes["other_property_violation:"+v.Prop+"/"+v.Oracle]++
				}
			}
		}
		var mine *V
		for i := range vs {
			if vs[i].Prop == prop && (first == nil || vs[i].Oracle == first.Oracle) {
				mine = &vs[i]
				break
			}
		}
		if mine == nil {
			return
		}
		if first == nil {
			first = mine
		}
		failed = true
		fc.Violation = mine
		b, _ := json.MarshalIndent(fc, "", " ")
		_ = os.WriteFile(filepath.Join(dir, "fail.json"), b, 0o644)
		rt.Fatalf("%s", mine.String())
	})
}

// Replay re-runs a saved history / program without rapid.
func Replay(t *testing.T) {
	path := os.Getenv("VP_REPLAY_FILE")
	if path == "" {
		t.Skip("VP_REPLAY_FILE not set")
	}
	b, err := os.ReadFile(path)
	if err != nil {
		t.Fatal(err)
	}
	var fc FailCase
	if err := json.Unmarshal(b, &fc); err != nil {
		t.Fatal(err)
	}
	var def *MockDef
	for i := range Registry {
		if Registry[i].ID == fc.MockID {
			def = &Registry[i]
		}
	}
	out := map[string]any{}
	if def == nil {
		out["error"] = fmt.Sprintf("mock %s is not registered (registered: %d)", fc.MockID, len(Registry))
	} else {
		var vs []V
		var err error
		if fc.Program != nil {
			// schedule-dependent: repeat (the race detector halts the process on the first report)
			if fc.Mode == "sched" {
				k := 0
				done := watchScheduled(&fc, "scheduled program")
				defer done()
				vs, _, _, err = RunScheduled(def, fc.Program, func(n int) int {
					c := 0
					if k < len(fc.Schedule) {
						c = fc.Schedule[k] % n
					}
					k++
					return c
				})
			}
			for i := 0; fc.Mode != "sched" && i < 25 && len(vs) == 0 && err == nil; i++ {
				if fc.Prop == "C06" {
					vs, _, err = RunSchedProgram(def, fc.Program)
				} else {
					vs, _, err = RunProgram(def, fc.Program)
				}
			}
		} else {
			done := watch(&fc, "sequential history")
			vs, _, err = RunHistory(def, fc.Ops)
			done()
		}
		var mine []V
		for _, v := range vs {
			if v.Prop == fc.Prop {
				mine = append(mine, v)
			}
		}
		out["violations"] = mine
		if err != nil {
			out["error"] = err.Error()
		}
	}
	ob, _ := json.MarshalIndent(out, "", " ")
	_ = os.WriteFile(os.Getenv("VP_REPLAY_OUT"), ob, 0o644)
	fmt.Println(string(ob))
}
