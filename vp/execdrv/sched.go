package execdrv

import (
	"fmt"
	"reflect"
	"strings"

	"verif/vp/vsync"
)

// hop is one completed top-level operation of a scheduled program (logical invoke/return times).
type hop struct {
	task     int
	kind     string // call | read | reset
	m        int
	args     argTuple
	out      reflect.Value // read: the returned slice
	inv, ret int
}

// RunScheduled runs a program on a mock whose sync import is redirected to vsync, under the harness-owned
// scheduler. choose picks among the enabled tasks at every synchronisation point. It checks (C06) that no
// reachable state is a deadlock - including states with a callback parked on a gate - and (C05) that the
// completed history is linearizable with respect to the per-method list model.
func RunScheduled(def *MockDef, prog *Program, choose func(n int) int) (vs []V, flags map[string]bool, trace []string, err error) {
	h, err := newHandle(def)
	if err != nil {
		return nil, nil, nil, err
	}
	flags = map[string]bool{}
	if len(h.methods) == 0 {
		return nil, flags, nil, nil
	}
	s := &vsync.Scheduler{Choose: choose}
	gate := &vsync.Gate{}
	parked := false
	gateMethod := -1
	if prog.BlockFirst && len(prog.Goroutines) > 0 {
		for _, op := range prog.Goroutines[0] {
			if op.Kind == "call" {
				gateMethod = op.M % len(h.methods)
				break
			}
		}
	}
	armed := false
	for k := range h.methods {
		ft := h.methods[k].typ
		zero := make([]reflect.Value, ft.NumOut())
		for i := range zero {
			zero[i] = reflect.Zero(ft.Out(i))
		}
		k := k
		h.methods[k].field.Set(reflect.MakeFunc(ft, func(in []reflect.Value) []reflect.Value {
			if k == gateMethod && armed && s.CurrentTaskID() == 0 {
				armed = false
				parked = true
				s.Wait(gate) // parked inside user code
			}
			return zero
		}))
	}
	n := len(prog.Goroutines)
	var hist []hop
	finished := make([]bool, n)
	bodies := make([]func(), n)
	for g := 0; g < n; g++ {
		g := g
		type prepared struct {
			op   Op
			mi   int
			args []reflect.Value
		}
		var plan []prepared
		for _, op := range prog.Goroutines[g] {
			mi := op.M % len(h.methods)
			if (op.Kind == "reset" || op.Kind == "resetall") && !def.Resets {
				continue
			}
			pr := prepared{op: op, mi: mi}
			if op.Kind == "call" {
				pr.args = h.genArgs(mi, &prng{s: op.Seed})
			}
			plan = append(plan, pr)
		}
		bodies[g] = func() {
			first := true
			for _, pr := range plan {
				vsync.Pause() // operations of one task are separate scheduling units
				m := &h.methods[pr.mi]
				inv := s.Now()
				switch pr.op.Kind {
				case "call":
					if prog.BlockFirst && g == 0 && pr.mi == gateMethod && first {
						armed = true
						first = false
					}
					if m.typ.IsVariadic() {
						m.call.CallSlice(pr.args)
					} else {
						m.call.Call(pr.args)
					}
					hist = append(hist, hop{g, "call", pr.mi, argTuple(pr.args), reflect.Value{}, inv, s.Now()})
				case "read":
					out := m.calls.Call(nil)
					hist = append(hist, hop{g, "read", pr.mi, nil, out[0], inv, s.Now()})
				case "reset":
					if m.reset.IsValid() {
						m.reset.Call(nil)
						hist = append(hist, hop{g, "reset", pr.mi, nil, reflect.Value{}, inv, s.Now()})
					}
				case "resetall":
					if h.resetAll.IsValid() {
						h.resetAll.Call(nil)
						// ResetCalls is not required to be atomic across methods: one reset per method, same interval
						ret := s.Now()
						for mi := range h.methods {
							hist = append(hist, hop{g, "reset", mi, nil, reflect.Value{}, inv, ret})
						}
					}
				}
			}
			finished[g] = true
		}
	}
	// the harness opens the gate only when everybody else is done: a parked callback must not hold anyone up
	s.OnIdle = func(s *vsync.Scheduler) bool {
		if !parked {
			return false
		}
		for g := 1; g < n; g++ {
			if !finished[g] {
				return false
			}
		}
		parked = false
		flags["parked-callback-others-finished"] = true
		gate.Open()
		return true
	}
	runErr := s.Run(bodies)
	trace = s.Trace
	if runErr != nil {
		if d, ok := runErr.(*vsync.Deadlock); ok {
			oracle := "deadlock-free"
			msg := fmt.Sprintf("[%s] deadlock state reached under the harness-owned scheduler: %s; schedule %s", def.ID, d.Desc, strings.Join(tailStr(s.Trace, 40), " "))
			if parked {
				oracle = "blocked-callback-blocks-others"
				msg = fmt.Sprintf("[%s] while a call of %s is parked inside its function the other tasks cannot finish: %s; schedule %s", def.ID, h.methods[maxInt(gateMethod, 0)].name, d.Desc, strings.Join(tailStr(s.Trace, 40), " "))
			}
			return []V{{"C06", oracle, msg}}, flags, trace, nil
		}
		return nil, flags, trace, runErr
	}
	// preemption between tasks operating on the same method?
	for i := 1; i < len(s.Trace); i++ {
		if s.Trace[i][0] != s.Trace[i-1][0] && !strings.HasSuffix(s.Trace[i-1], ":start") {
			flags["preempted"] = true
			break
		}
	}
	if v := linearizable(def, h, hist); v != nil {
		vs = append(vs, *v)
	}
	return vs, flags, trace, nil
}

func tailStr(s []string, n int) []string {
	if len(s) > n {
		return s[len(s)-n:]
	}
	return s
}

// linearizable searches for a sequential order of the completed operations that respects real time (an
// operation that returned before another was invoked comes first) and the per-method list model.
func linearizable(def *MockDef, h *handle, hist []hop) *V {
	n := len(hist)
	if n == 0 || n > 20 {
		return nil
	}
	model := make([][]int, len(h.methods)) // per method: indices (into hist) of the calls currently recorded
	done := make([]bool, n)
	dead := map[string]bool{}
	var key func() string
	key = func() string {
		var b strings.Builder
		for i := range done {
			if done[i] {
				b.WriteByte('1')
			} else {
				b.WriteByte('0')
			}
		}
		for _, l := range model {
			b.WriteString(fmt.Sprint(l))
		}
		return b.String()
	}
	var search func(k int) bool
	search = func(k int) bool {
		if k == n {
			return true
		}
		ky := key()
		if dead[ky] {
			return false
		}
		for i := 0; i < n; i++ {
			if done[i] {
				continue
			}
			// minimal w.r.t. real time: no other pending op returned before i was invoked
			ok := true
			for j := 0; j < n; j++ {
				if j != i && !done[j] && hist[j].ret < hist[i].inv {
					ok = false
					break
				}
			}
			if !ok {
				continue
			}
			op := hist[i]
			saved := model[op.m]
			switch op.kind {
			case "call":
				model[op.m] = append(append([]int{}, saved...), i)
			case "reset":
				model[op.m] = nil
			case "read":
				if op.out.Len() != len(saved) {
					continue
				}
				match := true
				for r := 0; r < op.out.Len() && match; r++ {
					rec, ok := recordOf(op.out, r)
					if !ok {
						match = false
						break
					}
					if same, _ := sameTuple(rec, hist[saved[r]].args); !same {
						match = false
					}
				}
				if !match {
					continue
				}
			}
			done[i] = true
			if search(k + 1) {
				return true
			}
			done[i] = false
			model[op.m] = saved
		}
		dead[ky] = true
		return false
	}
	if search(0) {
		return nil
	}
	var desc []string
	for _, op := range hist {
		d := fmt.Sprintf("t%d %s(%s)[%d,%d]", op.task, op.kind, h.methods[op.m].name, op.inv, op.ret)
		if op.kind == "read" {
			d += fmt.Sprintf("=%d records", op.out.Len())
		}
		desc = append(desc, d)
	}
	return &V{"C05", "linearizable", fmt.Sprintf("[%s] the history is not linearizable with respect to the per-method list model: %s", def.ID, strings.Join(desc, "; "))}
}
