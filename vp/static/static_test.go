package static

import (
	"encoding/json"
	"fmt"
	"os"
	"testing"

	"pgregory.net/rapid"

	"verif/vp/core"
)

// TestStatic runs one shard of one property's campaign (driven by cmd/vp).
func TestStatic(t *testing.T) {
	prop := os.Getenv("VP_PROP")
	def := Props[prop]
	if def == nil {
		t.Skip("VP_PROP not set")
	}
	h := NewHarness()
	defer h.WriteStats()
	if os.Getenv("VP_SHARD") == "0" {
		if v := h.RunEnumerated(def); v != nil {
			t.Fatalf("%s", v.String())
		}
	}
	rapid.Check(t, h.Property(def))
}

// TestReplay re-runs one saved case without rapid.
func TestReplay(t *testing.T) {
	path := os.Getenv("VP_REPLAY")
	if path == "" {
		t.Skip("VP_REPLAY not set")
	}
	c, err := core.LoadCase(path)
	if err != nil {
		t.Fatal(err)
	}
	def := Props[c.Prop]
	if def == nil {
		t.Fatalf("unknown property %q", c.Prop)
	}
	h := NewHarness()
	vs, x := h.RunCase(def, c, true)
	out := map[string]any{"violations": vs, "invalid_world": x == nil, "disagreements": h.St.Disagreements}
	if x != nil && x.Res != nil {
		out["moq_exit"] = x.Res.Exit
		out["moq_stderr_first"] = x.Res.StderrFirstLine()
	}
	b, _ := json.MarshalIndent(out, "", " ")
	_ = os.WriteFile(os.Getenv("VP_REPLAY_OUT"), b, 0o644)
	fmt.Println(string(b))
}
