package static

import (
	"fmt"
	"sort"
	"strings"

	"verif/vp/core"
	"verif/vp/gen"
)

// allCasings enumerates every upper/lower casing of every initialism (400 names for the 38 golint initialisms).
func allCasings() []string {
	set := map[string]bool{}
	for _, w := range gen.Initialisms {
		letters := []int{}
		for i, r := range w {
			if r >= 'A' && r <= 'Z' {
				letters = append(letters, i)
			}
		}
		for mask := 0; mask < 1<<len(letters); mask++ {
			b := []byte(w)
			for k, idx := range letters {
				if mask&(1<<k) != 0 {
					b[idx] += 'a' - 'A'
				}
			}
			set[string(b)] = true
		}
	}
	var out []string
	for s := range set {
		out = append(out, s)
	}
	sort.Strings(out)
	return out
}

// unnamedTypes is the table of unnamed parameter types whose derived name the property text fixes.
var unnamedTypes = []string{"string", "int", "int8", "int16", "int32", "int64", "rune", "float32", "float64", "bool", "error",
	"uint", "uint8", "byte", "uint16", "uint32", "uint64", "MyType", "*MyType", "[]MyType", "[3]MyType", "[]*MyType", "ID", "URL",
	"[]string", "[]byte", "[]int", "[4]bool", "[]error", "map[string]int", "map[MyType]string", "map[string][]MyType", "chan int",
	"<-chan string", "chan<- MyType", "chan []byte", "func()", "func(int) error", "struct{}", "struct{ A int }", "interface{ M() }",
	"*string", "**int", "[][]string", "[]map[string]int", "map[string]map[string]int", "dep.T", "*dep.T", "[]dep.T", "map[dep.T]dep.T",
	"chan dep.T", "dep.Reader", "[]dep.Reader", "lower", "*lower", "[]lower", "Type", "String", "Mock", "CallInfo"}

// enumerateC13 builds the exhaustive part of C13: every casing of every initialism as a user-written parameter
// name (each alone in its method, so the context is collision-free) and the table of unnamed parameter types.
func enumerateC13() []*core.Case {
	mk := func(name, body string) *core.Case {
		files := map[string]string{
			"go.mod":       "module example.com/w\n\ngo 1.24\n",
			"dep/dep.go":   "package dep\n\ntype T struct{ A int }\n\ntype Reader interface{ Read() }\n",
			"src/a_src.go": "package src\n\nimport \"example.com/w/dep\"\n\nvar _ dep.T\n\ntype MyType struct{ A int }\n\ntype ID int\n\ntype URL string\n\ntype lower int\n\ntype Type int\n\ntype String string\n\ntype Mock int\n\ntype CallInfo int\n\ntype " + name + " interface {\n" + body + "}\n",
		}
		return &core.Case{ModPath: "example.com/w", Files: files, SrcDir: "src", SrcPath: "example.com/w/src", SrcName: "src",
			Cfg: core.Config{DestKind: "implicit", Args: []string{name}, Invoke: "srcdot"}, Labels: []string{"enumerated"}}
	}
	var cases []*core.Case
	names := allCasings()
	for start := 0; start < len(names); start += 40 {
		var b strings.Builder
		for i := start; i < start+40 && i < len(names); i++ {
			fmt.Fprintf(&b, "\tM%d(%s int)\n", i, names[i])
		}
		cases = append(cases, mk(fmt.Sprintf("Casings%d", start/40), b.String()))
	}
	var b strings.Builder
	for i, t := range unnamedTypes {
		fmt.Fprintf(&b, "\tU%d(%s)\n", i, t)
	}
	cases = append(cases, mk("Unnamed", b.String()))
	return cases
}
