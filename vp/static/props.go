package static

import (
	"verif/vp/gen"
	"verif/vp/oracle"
)

func init() {
	Props["C01"] = &PropDef{
		Profile: func() gen.Profile { p := gen.DefaultProfile(); p.Name = "C01"; return p },
		Oracle:  oracle.C01,
		Confirm: true,
	}
	Props["C19"] = &PropDef{
		Profile: func() gen.Profile {
			p := gen.DefaultProfile()
			p.Name = "C19"
			p.Conflict = true
			p.MinDeps = 2
			p.MaxDeps = 6
			p.StdPct = 30
			return p
		},
		Mutate: gen.HostileArgs,
		Oracle: oracle.C19,
	}
}
