package static

import (
	"verif/vp/core"
	"verif/vp/gen"
	"verif/vp/oracle"
)

func prof(name string, mod func(p *gen.Profile)) func() gen.Profile {
	return func() gen.Profile {
		p := gen.DefaultProfile()
		p.Name = name
		if mod != nil {
			mod(&p)
		}
		return p
	}
}

func init() {
	Props["C01"] = &PropDef{Profile: prof("C01", func(p *gen.Profile) { p.GopathPct = 4; p.AdvNamesPct = 30 }), Oracle: oracle.C01, Confirm: true}
	Props["C02"] = &PropDef{Profile: prof("C02", func(p *gen.Profile) { p.EmbedPct = 45; p.MaxMethods = 5; p.TwinPct = 14 }), Oracle: oracle.C02}
	Props["C08s"] = &PropDef{Profile: prof("C08s", func(p *gen.Profile) { p.MaxMethods = 4 }), Oracle: oracle.C08Static}
	Props["C09"] = &PropDef{Profile: prof("C09", func(p *gen.Profile) {
		p.GenericPct = 85
		p.MaxIfaces = 2
		p.DestOther = 35
		p.GenericAliasBoost = 60
		p.BlankTParamBoost = 14
	}), Oracle: oracle.C09}
	Props["C10"] = &PropDef{Profile: prof("C10", func(p *gen.Profile) { p.DestOther = 40; p.DestTest = 20; p.DestSame = 15 }), Oracle: oracle.C10}
	Props["C11"] = &PropDef{Profile: prof("C11", func(p *gen.Profile) {
		p.Conflict = true
		p.MinDeps = 3
		p.MaxDeps = 6
		p.StdPct = 30
		p.AliasPct = 35
		p.EmbedPct = 40
		p.MultiRefPct = 15
		p.GopathPct = 12
		p.SameAliasPct = 10
		p.DiffAliasPct = 15
	}), Oracle: oracle.C11}
	Props["C12"] = &PropDef{Profile: prof("C12", func(p *gen.Profile) {
		p.AdvNames = true
		p.MaxParams = 6
		p.UnnamedPct = 35
		p.GenericPct = 10
		p.ShadowPct = 25
	}), Oracle: oracle.C12}
	Props["C13"] = &PropDef{Profile: prof("C13", func(p *gen.Profile) {
		p.AdvNames = true
		p.MaxParams = 5
		p.UnnamedPct = 55
		p.GenericPct = 8
		p.MaxDepth = 4
		p.ShadowPct = 10
	}), Oracle: oracle.C13, Enumerate: enumerateC13}
	Props["C14"] = &PropDef{Profile: prof("C14", func(p *gen.Profile) {
		p.Conflict = true
		p.MinDeps = 3
		p.MaxDeps = 6
		p.StdPct = 35
		p.AdvNames = true
		p.OutFilePct = 0
		p.MultiRefPct = 45
		p.ShadowPct = 60
		p.MaxIfaces = 2
		p.MaxMethods = 3
		p.AliasPct = 40
		p.SameAliasPct = 30
		p.ForcedGroupBoost = 20
		p.OtherNameAliasBoost = 35
		p.MultiArgPct = 50
		p.DiffAliasPct = 35
	}), Oracle: oracle.C14}
	Props["C16"] = &PropDef{Profile: prof("C16", func(p *gen.Profile) { p.OutFilePct = 0; p.MaxParams = 6; p.HugePct = 1 }), Mutate: c16Mutate, Oracle: oracle.C16}
	Props["C19"] = &PropDef{Profile: prof("C19", func(p *gen.Profile) {
		p.Conflict = true
		p.MinDeps = 2
		p.MaxDeps = 6
		p.StdPct = 30
		p.MultiRefPct = 15
	}), Mutate: gen.HostileArgs, Oracle: oracle.C19}
	Props["C20"] = &PropDef{Profile: prof("C20", func(p *gen.Profile) { p.MultiArgPct = 85; p.MaxIfaces = 4; p.OutFilePct = 0; p.LiteralAliasPct = 30 }), Oracle: oracle.C20}
}

// C16 runs every formatter itself; goimports from a cwd outside the module is the known finding F-N.
func c16Mutate(g *gen.G, c *core.Case) {
	c.Cfg.Fmt = ""
	if c.Cfg.Invoke == "foreignabs" && g.Open["F-N"] {
		g.Excl["F-N"]++
		c.Cfg.Invoke = "rootrel"
	}
}
