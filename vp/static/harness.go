// Package static is harness S: rapid-generated worlds x command lines, moq run as a
// subprocess, go/types oracles. It is compiled as a test binary and run in shards by cmd/vp.
package static

import (
	"encoding/json"
	"fmt"
	"os"
	"path/filepath"
	"sort"
	"strings"

	"pgregory.net/rapid"

	"verif/vp/core"
	"verif/vp/gen"
	"verif/vp/oracle"
	"verif/vp/tc"
)

// PropDef binds a property to its generator profile and oracle.
type PropDef struct {
	Profile func() gen.Profile
	Mutate  func(g *gen.G, c *core.Case)
	Oracle  func(*oracle.Ctx) []oracle.Violation
	Confirm bool // type-check based: confirm with the real toolchain before reporting
	// Enumerate returns a finite sub-space that is evaluated completely (by shard 0) before the random campaign
	Enumerate func() []*core.Case
}

var Props = map[string]*PropDef{}

// Stats is what one shard measured.
type Stats struct {
	Prop           string            `json:"property"`
	Shard          string            `json:"shard"`
	Evaluations    int               `json:"evaluations"`
	NonTrivial     []string          `json:"nontrivial_hashes"`
	Labels         map[string]int    `json:"labels"`
	Notes          map[string]int    `json:"notes"`
	Excl           map[string]int    `json:"excluded_known"`
	Invalid        int               `json:"invalid_worlds"`
	InvalidSamples []string          `json:"invalid_samples,omitempty"`
	Samples        []any             `json:"samples"`
	Violations     []ViolationRecord `json:"violations,omitempty"`
	Disagreements  int               `json:"disagreements"`
	Disagree       []string          `json:"disagreement_samples,omitempty"`
	Confirmed      int               `json:"confirmed_by_toolchain"`
	MoqRuns        int               `json:"moq_runs"`
}

type ViolationRecord struct {
	oracle.Violation
	Replay string `json:"replay"`
}

// Harness is the per-process state of a shard.
type Harness struct {
	Env     core.Env
	Scratch string
	Open    map[string]bool
	St      Stats
	nt      map[string]bool
	failed  bool
	first   *oracle.Violation
	caseNo  int
}

func NewHarness() *Harness {
	h := &Harness{Env: core.EnvFromOS(), Scratch: os.Getenv("VP_SHARD_DIR"), Open: map[string]bool{}, nt: map[string]bool{}}
	for _, f := range strings.Split(os.Getenv("VP_OPEN"), ",") {
		if f != "" {
			h.Open[f] = true
		}
	}
	h.St = Stats{Prop: os.Getenv("VP_PROP"), Shard: os.Getenv("VP_SHARD"), Labels: map[string]int{}, Notes: map[string]int{}, Excl: map[string]int{}}
	_ = os.MkdirAll(h.Scratch, 0o755)
	return h
}

func (h *Harness) WriteStats() {
	for k := range h.nt {
		h.St.NonTrivial = append(h.St.NonTrivial, k)
	}
	sort.Strings(h.St.NonTrivial)
	b, _ := json.MarshalIndent(&h.St, "", " ")
	_ = os.WriteFile(filepath.Join(h.Scratch, "stats.json"), b, 0o644)
}

func sampleOf(c *core.Case, x *oracle.Ctx, vs []oracle.Violation) map[string]any {
	s := map[string]any{"hash": c.Hash(), "config": c.Cfg, "labels": c.Labels}
	var srcs []string
	for name, content := range c.Files {
		if strings.HasPrefix(name, c.SrcDir+"/") {
			srcs = append(srcs, "// "+name+"\n"+content)
		}
	}
	sort.Strings(srcs)
	s["source_package"] = srcs
	s["n_files"] = len(c.Files)
	if x != nil && x.Res != nil {
		s["moq_exit"] = x.Res.Exit
		s["moq_argv"] = x.Res.Argv
		if x.Res.Exit != 0 {
			s["moq_stderr_first"] = x.Res.StderrFirstLine()
		}
		s["output_bytes"] = len(x.Judged)
		for k, v := range x.Extra {
			s[k] = v
		}
	}
	if len(vs) > 0 {
		s["violations"] = vs
	}
	return s
}

// RunCase evaluates one case. It returns the violations (already confirmed where required).
func (h *Harness) RunCase(def *PropDef, c *core.Case, counting bool) ([]oracle.Violation, *oracle.Ctx) {
	w := tc.Load(c)
	if len(w.Errs) > 0 {
		if counting {
			h.St.Invalid++
			if len(h.St.InvalidSamples) < 5 {
				h.St.InvalidSamples = append(h.St.InvalidSamples, fmt.Sprintf("%v\n%v", w.Errs[0], c.Files))
			}
		}
		return nil, nil
	}
	h.caseNo++
	dir := filepath.Join(h.Scratch, fmt.Sprintf("c%d", h.caseNo))
	defer os.RemoveAll(dir)
	worldDir := filepath.Join(dir, "world")
	if err := c.Materialise(worldDir); err != nil {
		panic("harness: " + err.Error())
	}
	x := oracle.NewCtx(h.Env, c, w, worldDir)
	vs := def.Oracle(x)
	if len(vs) > 0 && def.Confirm {
		var keep []oracle.Violation
		for _, v := range vs {
			if v.Oracle != "typechecks" && v.Oracle != "parses" {
				keep = append(keep, v)
				continue
			}
			ok, out := x.GoVet(x.Judged)
			if ok {
				h.St.Disagreements++
				if len(h.St.Disagree) < 5 {
					h.St.Disagree = append(h.St.Disagree, v.Msg+"\n-- but go vet accepted it --\n"+string(x.Judged))
				}
				continue
			}
			h.St.Confirmed++
			x.Extra["go_vet"] = firstLines(out, 6)
			keep = append(keep, v)
		}
		vs = keep
	}
	return vs, x
}

func firstLines(s string, n int) string {
	lines := strings.Split(s, "\n")
	if len(lines) > n {
		lines = lines[:n]
	}
	return strings.Join(lines, "\n")
}

// Property is the rapid property of one static campaign.
func (h *Harness) Property(def *PropDef) func(*rapid.T) {
	return func(rt *rapid.T) {
		counting := !h.failed
		excl := h.St.Excl
		if !counting {
			excl = map[string]int{}
		}
		g := gen.New(rt, def.Profile(), h.Open, excl)
		c := g.Case()
		c.Prop = h.St.Prop
		if def.Mutate != nil {
			def.Mutate(g, c)
		}
		vs, x := h.RunCase(def, c, counting)
		if x == nil {
			return
		}
		if counting {
			h.St.Evaluations++
			for _, l := range c.Labels {
				h.St.Labels[l]++
			}
			for k, v := range x.Notes {
				h.St.Notes[k] += v
			}
			if x.NonTrivial {
				h.nt[c.Hash()] = true
			}
			if (len(h.St.Samples) < 4 && x.NonTrivial) || (h.St.Evaluations%97 == 0 && len(h.St.Samples) < 8) {
				h.St.Samples = append(h.St.Samples, sampleOf(c, x, nil))
			}
		}
		if len(vs) == 0 {
			return
		}
		v := vs[0]
		if h.first != nil {
			// while shrinking, stay on the same oracle
			same := false
			for _, cand := range vs {
				if cand.Prop == h.first.Prop && cand.Oracle == h.first.Oracle {
					v, same = cand, true
				}
			}
			if !same {
				return
			}
		} else {
			h.first = &v
		}
		h.failed = true
		c.Oracle = v.Oracle
		c.Note = v.Msg
		failDir := filepath.Join(h.Scratch, "fail")
		_ = os.RemoveAll(failDir)
		_ = c.Save(failDir)
		if x.Res != nil {
			_ = os.WriteFile(filepath.Join(failDir, "moq_stdout.txt"), x.Res.Stdout, 0o644)
			_ = os.WriteFile(filepath.Join(failDir, "moq_stderr.txt"), x.Res.Stderr, 0o644)
			_ = os.WriteFile(filepath.Join(failDir, "judged_output.go.txt"), x.Judged, 0o644)
		}
		b, _ := json.MarshalIndent(v, "", " ")
		_ = os.WriteFile(filepath.Join(failDir, "violation.json"), b, 0o644)
		rt.Fatalf("%s", v.String())
	}
}

// RunEnumerated evaluates the finite sub-space of a property completely. It returns the first violation.
func (h *Harness) RunEnumerated(def *PropDef) *oracle.Violation {
	if def.Enumerate == nil {
		return nil
	}
	for _, c := range def.Enumerate() {
		c.Prop = h.St.Prop
		vs, x := h.RunCase(def, c, true)
		if x == nil {
			continue
		}
		h.St.Evaluations++
		h.St.Notes["enumerated_cases"]++
		for k, v := range x.Notes {
			h.St.Notes[k] += v
		}
		if x.NonTrivial {
			h.nt[c.Hash()] = true
		}
		if len(vs) > 0 {
			v := vs[0]
			c.Oracle, c.Note = v.Oracle, v.Msg
			failDir := filepath.Join(h.Scratch, "fail")
			_ = os.RemoveAll(failDir)
			_ = c.Save(failDir)
			b, _ := json.MarshalIndent(v, "", " ")
			_ = os.WriteFile(filepath.Join(failDir, "violation.json"), b, 0o644)
			if x.Res != nil {
				_ = os.WriteFile(filepath.Join(failDir, "judged_output.go.txt"), x.Judged, 0o644)
			}
			h.failed = true
			return &v
		}
	}
	h.St.Notes["enumeration_complete"] = 1
	return nil
}
