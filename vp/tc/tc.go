// Package tc type-checks a generated world in memory (go/types, "source"
// importer for std) and judges moq's output in its destination package.
package tc

import (
	"fmt"
	"go/ast"
	"go/build"
	"go/build/constraint"
	"go/importer"
	"go/parser"
	"go/token"
	"go/types"
	"path"
	"sort"
	"strings"
	"sync"

	"verif/vp/core"
)

var (
	stdMu   sync.Mutex
	stdFset = token.NewFileSet()
	stdImp  types.ImporterFrom
)

func std() types.ImporterFrom {
	if stdImp == nil {
		build.Default.CgoEnabled = false
		stdImp = importer.ForCompiler(stdFset, "source", nil).(types.ImporterFrom)
	}
	return stdImp
}

// Fset is the file set shared by everything this process type-checks.
func Fset() *token.FileSet { return stdFset }

// World is the type-checked view of a case.
type World struct {
	Case  *core.Case
	Fset  *token.FileSet
	dirs  map[string][]string // import path -> file names (keys of Case.Files)
	pkgs  map[string]*types.Package
	Files map[string][]*ast.File
	Infos map[string]*types.Info
	Errs  []error
	busy  map[string]bool
}

// Load parses and type-checks every package of the world.
func Load(c *core.Case) *World {
	stdMu.Lock()
	defer stdMu.Unlock()
	w := &World{Case: c, Fset: stdFset, dirs: map[string][]string{}, pkgs: map[string]*types.Package{},
		Files: map[string][]*ast.File{}, Infos: map[string]*types.Info{}, busy: map[string]bool{}}
	for name := range c.Files {
		if !strings.HasSuffix(name, ".go") || strings.HasSuffix(name, "_test.go") {
			continue
		}
		// what the go command does not consider part of a package of this module
		if strings.Contains("/"+name, "/testdata/") || !buildConstraintHolds(c.Files[name]) {
			continue
		}
		if nestedModule(c, name) {
			continue
		}
		ip := w.importPathOfFile(name)
		if ip == "" {
			continue
		}
		w.dirs[ip] = append(w.dirs[ip], name)
	}
	var paths []string
	for ip := range w.dirs {
		sort.Strings(w.dirs[ip])
		paths = append(paths, ip)
	}
	sort.Strings(paths)
	for _, ip := range paths {
		if _, err := w.load(ip); err != nil {
			w.Errs = append(w.Errs, err)
		}
	}
	return w
}

func (w *World) importPathOfFile(name string) string {
	dir := path.Dir(name)
	if w.Case.Gopath {
		if !strings.HasPrefix(dir, "src/") {
			return ""
		}
		return strings.TrimPrefix(dir, "src/")
	}
	if dir == "." {
		return w.Case.ModPath
	}
	return w.Case.ModPath + "/" + dir
}

func (w *World) load(ip string) (*types.Package, error) {
	if p, ok := w.pkgs[ip]; ok {
		return p, nil
	}
	if w.busy[ip] {
		return nil, fmt.Errorf("import cycle through %s", ip)
	}
	w.busy[ip] = true
	defer delete(w.busy, ip)
	var files []*ast.File
	for _, name := range w.dirs[ip] {
		f, err := parser.ParseFile(w.Fset, name, w.Case.Files[name], parser.ParseComments|parser.SkipObjectResolution)
		if err != nil {
			w.Errs = append(w.Errs, err)
			if f == nil {
				continue
			}
		}
		files = append(files, f)
	}
	info := newInfo()
	conf := types.Config{Importer: &from{w: w, dir: ip}, GoVersion: "go1.24", Error: func(err error) { w.Errs = append(w.Errs, err) }}
	pkg, _ := conf.Check(ip, w.Fset, files, info)
	w.pkgs[ip] = pkg
	w.Files[ip] = files
	w.Infos[ip] = info
	return pkg, nil
}

func newInfo() *types.Info {
	return &types.Info{
		Types:      map[ast.Expr]types.TypeAndValue{},
		Defs:       map[*ast.Ident]types.Object{},
		Uses:       map[*ast.Ident]types.Object{},
		Selections: map[*ast.SelectorExpr]*types.Selection{},
		Implicits:  map[ast.Node]types.Object{},
		Instances:  map[*ast.Ident]types.Instance{},
	}
}

type from struct {
	w   *World
	dir string // import path of the importing package (vendor resolution)
}

func (f *from) Import(p string) (*types.Package, error) { return f.ImportFrom(p, "", 0) }

func (f *from) ImportFrom(p, _ string, _ types.ImportMode) (*types.Package, error) {
	w := f.w
	if w.Case.Gopath {
		// vendor resolution: nearest enclosing vendor directory
		d := f.dir
		for {
			cand := d + "/vendor/" + p
			if _, ok := w.dirs[cand]; ok {
				return w.load(cand)
			}
			i := strings.LastIndex(d, "/")
			if i < 0 {
				break
			}
			d = d[:i]
		}
	}
	if _, ok := w.dirs[p]; ok {
		return w.load(p)
	}
	return std().ImportFrom(p, "", 0)
}

// Pkg returns a world package by import path (nil if unknown).
func (w *World) Pkg(ip string) *types.Package { return w.pkgs[ip] }

// Src returns the source package.
func (w *World) Src() *types.Package { return w.pkgs[w.Case.SrcPath] }

// Importer returns an importer resolving world packages, then std.
func (w *World) Importer(fromPath string) types.ImporterFrom { return &from{w: w, dir: fromPath} }

// PackagePaths lists the import paths of the world's packages.
func (w *World) PackagePaths() []string {
	var s []string
	for p := range w.pkgs {
		s = append(s, p)
	}
	sort.Strings(s)
	return s
}

// Dest is moq's output judged in its destination package.
type Dest struct {
	World    *World
	Fset     *token.FileSet
	File     *ast.File
	ParseErr error
	Pkg      *types.Package
	Info     *types.Info
	TypeErrs []types.Error
	InPlace  bool
	Path     string
	// SrcPkg is the package object in which the mocked interfaces live as seen from the
	// destination (the re-checked package itself when generated in place).
	SrcPkg *types.Package
}

// DestPath returns the import path of the package the output is written for.
func DestPath(c *core.Case) (ip string, inPlace bool) {
	switch c.Cfg.DestKind {
	case "other":
		return c.ModPath + "/out/" + c.Cfg.Pkg, false
	case "test":
		return c.SrcPath + "_test", false
	}
	return c.SrcPath, true
}

// CheckOutput parses out and type-checks it in the destination package.
func (w *World) CheckOutput(out []byte) *Dest {
	stdMu.Lock()
	defer stdMu.Unlock()
	c := w.Case
	ip, inPlace := DestPath(c)
	d := &Dest{World: w, Fset: w.Fset, InPlace: inPlace, Path: ip}
	f, err := parser.ParseFile(w.Fset, "moq_output.go", out, parser.ParseComments|parser.SkipObjectResolution)
	d.File = f
	if err != nil {
		d.ParseErr = err
		if f == nil {
			return d
		}
	}
	var files []*ast.File
	if inPlace {
		// re-parse the source files so the fresh package owns its own AST
		for _, name := range w.dirs[c.SrcPath] {
			if c.Cfg.Out != "" && name == c.Cfg.Out {
				continue // an earlier output at the -out path is replaced by this one
			}
			sf, perr := parser.ParseFile(w.Fset, name, c.Files[name], parser.ParseComments|parser.SkipObjectResolution)
			if perr == nil {
				files = append(files, sf)
			}
		}
	}
	files = append(files, f)
	d.Info = newInfo()
	conf := types.Config{Importer: &from{w: w, dir: c.SrcPath}, GoVersion: "go1.24", Error: func(err error) {
		if te, ok := err.(types.Error); ok {
			d.TypeErrs = append(d.TypeErrs, te)
		}
	}}
	d.Pkg, _ = conf.Check(ip, w.Fset, files, d.Info)
	if inPlace {
		d.SrcPkg = d.Pkg
	} else {
		d.SrcPkg = w.Src()
	}
	return d
}

// ErrStrings formats type errors without positions that depend on the file set.
func (d *Dest) ErrStrings(max int) []string {
	var s []string
	if d.ParseErr != nil {
		s = append(s, "parse: "+d.ParseErr.Error())
	}
	for i, e := range d.TypeErrs {
		if i >= max {
			s = append(s, fmt.Sprintf("... and %d more", len(d.TypeErrs)-max))
			break
		}
		pos := d.Fset.Position(e.Pos)
		s = append(s, fmt.Sprintf("%s:%d:%d: %s", pos.Filename, pos.Line, pos.Column, e.Msg))
	}
	return s
}

// nestedModule reports whether a directory above the file (below the world root) has a go.mod of its own.
func nestedModule(c *core.Case, name string) bool {
	for d := path.Dir(name); d != "." && d != "/"; d = path.Dir(d) {
		if _, ok := c.Files[d+"/go.mod"]; ok {
			return true
		}
	}
	return false
}

// buildConstraintHolds evaluates a leading //go:build line the way the go command does in the environment the
// tools run in (linux/amd64, cgo enabled, gc).
func buildConstraintHolds(src string) bool {
	for _, line := range strings.Split(src, "\n") {
		l := strings.TrimSpace(line)
		if l == "" {
			continue
		}
		if !strings.HasPrefix(l, "//") {
			break
		}
		if constraint.IsGoBuild(l) {
			expr, err := constraint.Parse(l)
			if err != nil {
				return true
			}
			return expr.Eval(func(tag string) bool {
				switch tag {
				case "linux", "amd64", "cgo", "unix", "gc":
					return true
				}
				return strings.HasPrefix(tag, "go1.")
			})
		}
	}
	return true
}
