// Package clifs is harness F: the moq CLI as a state machine over the file system of a scratch
// module - regeneration histories (C15), injected failure points (C17) and whole-tree snapshots (C18).
package clifs

import (
	"crypto/sha256"
	"encoding/hex"
	"fmt"
	"io/fs"
	"os"
	"os/exec"
	"path/filepath"
	"sort"
	"strings"
)

// Entry describes one file-system object (no mtimes: they are not part of any property).
type Entry struct {
	Kind string // file | dir | symlink | other
	Mode fs.FileMode
	Size int64
	Sum  string
}

// Snapshot walks root and records every object below it.
func Snapshot(root string) map[string]Entry {
	out := map[string]Entry{}
	_ = filepath.Walk(root, func(p string, info fs.FileInfo, err error) error {
		if err != nil {
			return nil
		}
		rel, _ := filepath.Rel(root, p)
		e := Entry{Mode: info.Mode() & (fs.ModePerm | fs.ModeSetgid | fs.ModeSetuid | fs.ModeSticky)}
		switch {
		case info.IsDir():
			e.Kind = "dir"
		case info.Mode()&fs.ModeSymlink != 0:
			e.Kind = "symlink"
			e.Sum, _ = os.Readlink(p)
		case info.Mode().IsRegular():
			e.Kind = "file"
			e.Size = info.Size()
			if b, err := os.ReadFile(p); err == nil {
				h := sha256.Sum256(b)
				e.Sum = hex.EncodeToString(h[:8])
			} else {
				e.Sum = "unreadable"
			}
		default:
			e.Kind = "other"
		}
		out[rel] = e
		return nil
	})
	return out
}

// Diff lists what changed between two snapshots: "+path", "-path", "~path".
func Diff(a, b map[string]Entry) []string {
	var d []string
	for p, ea := range a {
		eb, ok := b[p]
		if !ok {
			d = append(d, "-"+p)
		} else if ea != eb {
			d = append(d, "~"+p)
		}
	}
	for p := range b {
		if _, ok := a[p]; !ok {
			d = append(d, "+"+p)
		}
	}
	sort.Strings(d)
	return d
}

// allowedChange reports whether a changed path is the -out file or a directory on the way to it.
func allowedChange(change, outRel string) bool {
	if outRel == "" {
		return false
	}
	p := change[1:]
	if p == outRel {
		return true
	}
	// directories leading to -out may be created (only "+")
	if change[0] == '+' && strings.HasPrefix(outRel, p+"/") {
		return true
	}
	return false
}

func chattr(flag, path string) error {
	out, err := exec.Command("chattr", flag, path).CombinedOutput()
	if err != nil {
		return fmt.Errorf("chattr %s %s: %v %s", flag, path, err, out)
	}
	return nil
}
