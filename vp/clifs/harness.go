package clifs

import (
	"bytes"
	"encoding/json"
	"fmt"
	"os"
	"path/filepath"
	"regexp"
	"sort"
	"strings"

	"pgregory.net/rapid"

	"verif/vp/core"
	"verif/vp/gen"
	"verif/vp/oracle"
	"verif/vp/static"
	"verif/vp/tc"
)

// Scenario is the drawn plan of one case of harness F.
type Scenario struct {
	Kind    string   `json:"kind"` // history | fault
	Actions []string `json:"actions,omitempty"`
	OutName string   `json:"out_name,omitempty"`

	Prior       string `json:"prior,omitempty"` // absent | bytes | good
	Fault       string `json:"fault,omitempty"`
	BadArg      string `json:"bad_arg,omitempty"`
	BadPos      int    `json:"bad_pos,omitempty"`
	FsizeBlocks int    `json:"fsize_blocks,omitempty"`
	Rm          bool   `json:"rm,omitempty"`
	OutRel      string `json:"out_rel,omitempty"` // relative to the module root; "" = stdout
	PkgVariant  string `json:"pkg_variant,omitempty"`
	EmptyParent bool   `json:"empty_parent,omitempty"` // -out lies in a directory that exists and is empty before the run
	DirMode     string `json:"dir_mode,omitempty"`     // octal mode given to the existing directory nearest to -out before the run
}

func (s *Scenario) toMap() map[string]any {
	b, _ := json.Marshal(s)
	var m map[string]any
	_ = json.Unmarshal(b, &m)
	return m
}

func scenarioOf(c *core.Case) *Scenario {
	b, _ := json.Marshal(c.Scenario)
	var s Scenario
	_ = json.Unmarshal(b, &s)
	return &s
}

// H is the per-process harness state.
type H struct {
	Env     core.Env
	Scratch string
	Open    map[string]bool
	St      static.Stats
	nt      map[string]bool
	failed  bool
	first   *oracle.Violation
	caseNo  int
}

func NewH() *H {
	h := &H{Env: core.EnvFromOS(), Scratch: os.Getenv("VP_SHARD_DIR"), Open: map[string]bool{}, nt: map[string]bool{}}
	for _, f := range strings.Split(os.Getenv("VP_OPEN"), ",") {
		if f != "" {
			h.Open[f] = true
		}
	}
	h.St = static.Stats{Prop: os.Getenv("VP_PROP"), Shard: os.Getenv("VP_SHARD"), Labels: map[string]int{}, Notes: map[string]int{}, Excl: map[string]int{}}
	_ = os.MkdirAll(h.Scratch, 0o755)
	return h
}

func (h *H) WriteStats() {
	for k := range h.nt {
		h.St.NonTrivial = append(h.St.NonTrivial, k)
	}
	sort.Strings(h.St.NonTrivial)
	b, _ := json.MarshalIndent(&h.St, "", " ")
	_ = os.WriteFile(filepath.Join(h.Scratch, "stats.json"), b, 0o644)
}

// run is the outcome of evaluating one case.
type run struct {
	vs         []oracle.Violation
	nonTrivial bool
	notes      map[string]int
	trace      []string
}

func (r *run) note(k string) { r.notes[k]++ }
func (r *run) bad(prop, oracleName, format string, a ...any) {
	r.vs = append(r.vs, oracle.Violation{Prop: prop, Oracle: oracleName, Msg: fmt.Sprintf(format, a...)})
}
func (r *run) logf(format string, a ...any) { r.trace = append(r.trace, fmt.Sprintf(format, a...)) }

// drawCase draws the world and the scenario for the property.
func (h *H) drawCase(rt *rapid.T, prop string, excl map[string]int) *core.Case {
	p := gen.DefaultProfile()
	p.Name = prop
	p.OutFilePct = 0
	switch prop {
	case "C15":
		p.InPlaceOnly = true
		p.Evolve = true
		p.UniqueAliases = h.Open["F-K"]
		p.SameAliasPct = 20
		p.MockLikeParamPct = 25
		p.AliasPct = 40
		p.MinDeps = 1
	case "C17", "C18":
		p.MaxIfaces = 3
		p.MultiArgPct = 60
		p.DestTest = 25
	}
	g := gen.New(rt, p, h.Open, excl)
	c := g.Case()
	c.Prop = prop
	s := &Scenario{}
	switch prop {
	case "C15":
		s.Kind = "history"
		// in place either implicitly or by naming the source package explicitly
		if g.Chance(35) && !h.Open["F-D"] {
			c.Cfg.DestKind, c.Cfg.Pkg = "same", c.SrcName
			c.AddLabel("dest:same")
		}
		names := []string{"aa_moq.go", "b_moq.go", "n_moq.go", "zz_moq.go", "mock_gen.go", "mocks_test.go", "zz_moq_test.go"}
		s.OutName = g.Pick(names)
		// F-K: the same alias for two paths in two files + an -out name sorting between the source files
		if c.HasLabel("alias:same-for-two-paths") && (s.OutName == "b_moq.go" || s.OutName == "n_moq.go" || s.OutName == "mock_gen.go") {
			if h.Open["F-K"] {
				excl["F-K"]++
				s.OutName = "zz_moq.go"
			}
		}
		n := g.Int(3, 7)
		acts := []string{"gen", "gen-rm", "scribble:absent", "scribble:own", "scribble:other", "scribble:bytes", "scribble:badgo", "scribble:clash", "scribble:symlink", "scribble:danglink", "scribble:foreign", "scribble:foreign", "evolve", "gen", "gen-rm", "gen"}
		for i := 0; i < n; i++ {
			s.Actions = append(s.Actions, g.Pick(acts))
		}
		// make sure a generation follows the last edit
		s.Actions = append(s.Actions, g.Pick([]string{"gen", "gen-rm", "gen"}))
		if g.Chance(50) {
			s.Actions = append(s.Actions, "gen")
		}
	default:
		s.Kind = "fault"
		s.Prior = g.Pick([]string{"absent", "bytes", "good", "longer", "longer", "otherfmt", "crlf"})
		s.Rm = g.Chance(35)
		faults := []string{"badflag", "none", "none", "none", "none", "none", "none", "noargs", "onearg", "srcmissing", "srcempty", "syntaxerr", "typeerr", "twopkgs", "badarg", "badarg", "badarg",
			"mkdirfail", "outisdir", "outisemptydir", "immutable", "immutabledir", "longname", "rmfail", "fsize", "stdout", "badarg-stdout", "stdoutfull"}
		if prop == "C18" {
			// side effects of SUCCESSFUL runs matter as much as those of failing ones
			faults = append(faults, "none", "none", "none", "none", "none", "none")
		}
		s.Fault = g.Pick(faults)
		if s.Fault == "fsize" && h.Open["F-J"] {
			excl["F-J"]++
			s.Fault = "immutable"
		}
		// where the output goes
		dir := c.SrcDir
		switch c.Cfg.DestKind {
		case "other":
			dir = "out/" + c.Cfg.Pkg
		}
		name := "mock_gen.go"
		if c.Cfg.DestKind == "test" && g.Chance(50) {
			name = "mock_gen_test.go" // otherwise: a name the go command would not take for a test file (moq must not care)
		}
		if g.Chance(30) {
			name += ".txt"
		}
		place := g.Int(0, 3)
		if c.Cfg.DestKind == "test" && g.Chance(50) {
			place = 0 // the external test package lives next to the sources
		}
		switch place {
		case 0:
			s.OutRel = dir + "/" + name
		case 1:
			s.OutRel = "gen/nested/deeper/" + name
		case 2:
			s.OutRel = name
		default:
			s.OutRel = dir + "/sub/" + name
		}
		if g.Chance(18) {
			s.OutRel = "prepared/empty/" + name
			s.EmptyParent = true
			if g.Chance(35) {
				s.Fault = "longname" // a write that fails inside the existing empty directory
			}
		}
		if s.Fault == "badflag" {
			// the flag package's own failure point: an undefined flag or an unparsable value in front of valid arguments
			s.BadArg = g.Pick([]string{"-stubb", "-with-resets=maybe", "-rm=2", "--no-such-flag", "-skip-ensure=", "-stub=yes please", "-fmtt=gofmt"})
		}
		if s.Fault == "stdout" || s.Fault == "badarg-stdout" || s.Fault == "stdoutfull" {
			s.OutRel = ""
			s.Rm = false
			s.Prior = "absent"
		}
		if prop == "C18" && g.Chance(35) {
			s.PkgVariant = g.Pick([]string{"existing-dir", "missing-dir", "needs-require"})
		}
		if s.OutRel != "" && g.Chance(35) {
			s.DirMode = g.Pick([]string{"0700", "0750", "0775", "02775", "0711", "01777"})
		}
		if s.Fault == "badarg" || s.Fault == "badarg-stdout" {
			bads := []string{"NoSuchIface", "", ":", "nope:Alias"}
			if c.Cfg.Fmt != "noop" {
				base := strings.SplitN(c.Cfg.Args[0], ":", 2)[0]
				bads = append(bads, base+":9y", base+":a b", base+":")
			}
			s.BadArg = g.Pick(bads)
			s.BadPos = g.Int(0, len(c.Cfg.Args))
		}
		if s.Fault == "fsize" {
			s.FsizeBlocks = g.Int(1, 6)
		}
		if (s.Fault == "immutable") && s.Prior == "absent" {
			s.Prior = "bytes"
		}
		if s.Fault == "immutabledir" || s.Fault == "mkdirfail" || s.Fault == "longname" || s.Fault == "outisdir" || s.Fault == "outisemptydir" || s.Fault == "rmfail" {
			s.Prior = "absent"
		}
		if s.Fault == "rmfail" {
			s.Rm = true
		}
		if s.EmptyParent && (s.Prior != "absent" || s.Fault == "immutable" || s.Fault == "outisdir" || s.Fault == "outisemptydir" || s.Fault == "rmfail" || s.Fault == "mkdirfail" || s.Fault == "immutabledir" || s.OutRel == "") {
			s.EmptyParent = false // the directory would not be empty / is not used
			if strings.HasPrefix(s.OutRel, "prepared/empty/") {
				s.OutRel = name
			}
		}
	}
	// -out is given relative to the working directory in 40% of the cases
	if g.Chance(40) {
		c.Cfg.RelOut = true
		c.AddLabel("out:relative")
	}
	c.Scenario = s.toMap()
	c.AddLabel("fault:" + s.Fault)
	c.AddLabel("prior:" + s.Prior)
	if s.Rm {
		c.AddLabel("rm")
	}
	if s.DirMode != "" {
		c.AddLabel("dirmode:" + s.DirMode)
	}
	return c
}

// Property is the rapid property of harness F.
func (h *H) Property(prop string) func(*rapid.T) {
	return func(rt *rapid.T) {
		counting := !h.failed
		excl := h.St.Excl
		if !counting {
			excl = map[string]int{}
		}
		c := h.drawCase(rt, prop, excl)
		r := h.Eval(c, counting)
		if r == nil {
			return
		}
		if counting {
			h.St.Evaluations++
			for _, l := range c.Labels {
				h.St.Labels[l]++
			}
			for k, v := range r.notes {
				h.St.Notes[k] += v
			}
			if r.nonTrivial {
				h.nt[c.Hash()+fmt.Sprint(c.Scenario)] = true
			}
			if (len(h.St.Samples) < 3 && r.nonTrivial) || (h.St.Evaluations%53 == 0 && len(h.St.Samples) < 6) {
				h.St.Samples = append(h.St.Samples, map[string]any{"scenario": c.Scenario, "config": c.Cfg, "labels": c.Labels, "trace": r.trace, "n_files": len(c.Files)})
			}
		}
		if len(r.vs) == 0 {
			return
		}
		v := r.vs[0]
		if h.first != nil {
			same := false
			for _, cand := range r.vs {
				if cand.Prop == h.first.Prop && cand.Oracle == h.first.Oracle {
					v, same = cand, true
				}
			}
			if !same {
				return
			}
		} else {
			h.first = &v
		}
		h.failed = true
		c.Oracle = v.Oracle
		c.Note = v.Msg
		failDir := filepath.Join(h.Scratch, "fail")
		_ = os.RemoveAll(failDir)
		_ = c.Save(failDir)
		b, _ := json.MarshalIndent(v, "", " ")
		_ = os.WriteFile(filepath.Join(failDir, "violation.json"), b, 0o644)
		_ = os.WriteFile(filepath.Join(failDir, "trace.txt"), []byte(strings.Join(r.trace, "\n")+"\n"), 0o644)
		rt.Fatalf("%s", v.String())
	}
}

// Eval materialises the case and executes its scenario. nil = invalid world (counted).
func (h *H) Eval(c *core.Case, counting bool) *run {
	w := tc.Load(c)
	if len(w.Errs) > 0 {
		if counting {
			h.St.Invalid++
			if len(h.St.InvalidSamples) < 3 {
				h.St.InvalidSamples = append(h.St.InvalidSamples, fmt.Sprint(w.Errs[0]))
			}
		}
		return nil
	}
	h.caseNo++
	dir := filepath.Join(h.Scratch, fmt.Sprintf("c%d", h.caseNo))
	defer func() {
		_ = chattrRecursiveClear(dir)
		_ = os.RemoveAll(dir)
	}()
	world := filepath.Join(dir, "world")
	if err := c.Materialise(world); err != nil {
		panic("harness: " + err.Error())
	}
	_ = os.MkdirAll(filepath.Join(dir, "foreign"), 0o755)
	r := &run{notes: map[string]int{}}
	s := scenarioOf(c)
	switch s.Kind {
	case "history":
		h.evalHistory(c, s, dir, world, r)
	default:
		h.evalFault(c, s, dir, world, r)
	}
	h.St.MoqRuns += r.notes["moq_runs"]
	// keep only the violations of the property under check
	var keep []oracle.Violation
	for _, v := range r.vs {
		if v.Prop == c.Prop {
			keep = append(keep, v)
		}
	}
	r.vs = keep
	return r
}

func chattrRecursiveClear(dir string) error {
	return filepath.Walk(dir, func(p string, info os.FileInfo, err error) error {
		if err == nil {
			_ = chattr("-i", p)
		}
		return nil
	})
}

func readState(p string) (exists bool, isDir bool, content []byte) {
	st, err := os.Lstat(p)
	if err != nil {
		return false, false, nil
	}
	if st.IsDir() {
		return true, true, nil
	}
	b, _ := os.ReadFile(p)
	return true, false, b
}

var (
	srcImportRe = regexp.MustCompile(`(?m)^\s*(?:[A-Za-z_][A-Za-z0-9_]*\s+)?"([^"]+)"\s*$`)
	typeDeclRe  = regexp.MustCompile(`(?m)^type ([A-Z][A-Za-z0-9_]*) (?:struct|int|string|interface)`)
)

// foreignFile builds a compiling file of the source package which imports one of the world's own packages that the
// source files import too, under another alias, and uses it.
func foreignFile(c *core.Case) []byte {
	var names []string
	for name := range c.Files {
		names = append(names, name)
	}
	sort.Strings(names)
	for _, name := range names {
		if !strings.HasPrefix(name, c.SrcDir+"/") || !strings.HasSuffix(name, ".go") || strings.Count(name, "/") != strings.Count(c.SrcDir, "/")+1 {
			continue
		}
		for _, m := range srcImportRe.FindAllStringSubmatch(c.Files[name], -1) {
			path := m[1]
			if !strings.HasPrefix(path, c.ModPath+"/") {
				continue
			}
			dir := strings.TrimPrefix(path, c.ModPath+"/")
			for _, dn := range names {
				if strings.HasPrefix(dn, dir+"/") && strings.Count(dn, "/") == strings.Count(dir, "/")+1 && strings.HasSuffix(dn, ".go") {
					if t := typeDeclRe.FindStringSubmatch(c.Files[dn]); t != nil {
						return []byte("package " + c.SrcName + "\n\n// written by hand\n\nimport zzforeign \"" + path + "\"\n\nvar _ zzforeign." + t[1] + "\n")
					}
				}
			}
		}
	}
	return nil
}

// readStateL is readState for a path that may be a symbolic link: a link exists even when it dangles, and its
// state is "link" plus whatever can be read through it.
func readStateL(p string) (exists, isDir bool, content []byte) {
	if st, err := os.Lstat(p); err == nil && st.Mode()&os.ModeSymlink != 0 {
		b, _ := os.ReadFile(p)
		return true, false, append([]byte("symlink->"), b...)
	}
	return readState(p)
}

func looksLikeGoSource(b []byte) bool {
	for _, l := range strings.Split(string(b), "\n") {
		if strings.HasPrefix(l, "// Code generated by moq") || strings.HasPrefix(l, "package ") || strings.HasPrefix(l, "type ") && strings.HasSuffix(l, "struct {") {
			return true
		}
	}
	return false
}

func short(b []byte) string {
	s := string(b)
	if len(s) > 160 {
		s = s[:160] + "..."
	}
	return fmt.Sprintf("%q", s)
}

// ---------------------------------------------------------------- C15: histories

func (h *H) evalHistory(c *core.Case, s *Scenario, dir, world string, r *run) {
	root := c.Root(world)
	outRel := c.SrcDir + "/" + s.OutName
	outAbs := filepath.Join(root, outRel)
	version := 1
	files := func(v int) map[string]string {
		m := map[string]string{}
		for k, x := range c.Files {
			m[k] = x
		}
		if v == 2 {
			for k, x := range c.Alt {
				m[k] = x
			}
		}
		return m
	}
	type clean struct {
		exit int
		out  []byte
		done bool
	}
	cleans := map[int]*clean{}
	cleanOf := func(v int) *clean {
		if cl := cleans[v]; cl != nil {
			return cl
		}
		pd := filepath.Join(dir, fmt.Sprintf("pristine%d", v))
		pc := c.Clone()
		pc.Files = files(v)
		_ = pc.Materialise(filepath.Join(pd, "world"))
		pc.Cfg.Out, pc.Cfg.Rm = "", false
		res := core.RunMoq(h.Env, pc, filepath.Join(pd, "world"))
		r.note("moq_runs")
		cl := &clean{exit: res.Exit, out: res.Stdout, done: true}
		cleans[v] = cl
		_ = os.RemoveAll(pd)
		return cl
	}
	hasAlt := len(c.Alt) > 0
	regenOverOwnWithAlias, rmOverBroken := false, false
	for i, act := range s.Actions {
		switch {
		case act == "evolve":
			if !hasAlt {
				continue
			}
			version = 3 - version
			for k, x := range files(version) {
				_ = os.WriteFile(filepath.Join(root, k), []byte(x), 0o644)
			}
			r.logf("%d evolve -> v%d", i, version)
		case strings.HasPrefix(act, "scribble:"):
			kind := strings.TrimPrefix(act, "scribble:")
			var content []byte
			switch kind {
			case "absent":
				_ = os.Remove(outAbs)
				r.logf("%d scribble absent", i)
				continue
			case "own":
				cl := cleanOf(version)
				if cl.exit != 0 {
					continue
				}
				content = cl.out
			case "other":
				if !hasAlt {
					continue
				}
				cl := cleanOf(3 - version)
				if cl.exit != 0 {
					continue
				}
				content = cl.out
			case "bytes":
				content = []byte("\x00\x01 this is not Go \xff\n{{{\n")
			case "badgo":
				content = []byte("package " + c.SrcName + "\n\nvar zzBroken int = \"not an int\"\n")
			case "clash":
				first := oracle.Requests(c.Cfg.Args)[0]
				content = []byte("package " + c.SrcName + "\n\ntype " + first.Mock + " struct{ Stale int }\n")
			case "foreign":
				// a hand-written file that compiles, carries no moq marker and imports a package of the world under
				// an alias of its own
				content = foreignFile(c)
				if content == nil {
					continue
				}
			case "symlink", "danglink":
				// the -out path is a symbolic link: to stale non-compiling content kept elsewhere, or to nothing
				target := filepath.Join(dir, "linktarget_"+kind+".go.txt")
				if kind == "symlink" {
					_ = os.WriteFile(target, []byte("package "+c.SrcName+"\n\nvar zzStale int = \"kept elsewhere\"\n"), 0o644)
				} else {
					_ = os.Remove(target)
				}
				_ = os.Remove(outAbs)
				_ = os.Symlink(target, outAbs)
				r.logf("%d scribble %s -> %s", i, kind, target)
				continue
			}
			_ = os.Remove(outAbs) // never write through a link left by an earlier step
			_ = os.WriteFile(outAbs, content, 0o644)
			r.logf("%d scribble %s (%d bytes)", i, kind, len(content))
		case act == "gen" || act == "gen-rm":
			rm := act == "gen-rm"
			cl := cleanOf(version)
			_, _, before := readStateL(outAbs)
			existed, _, _ := readStateL(outAbs)
			rc := c.Clone()
			rc.Files = nil
			rc.Cfg.Out = outRel
			rc.Cfg.Rm = rm
			res := core.RunMoq(h.Env, rc, world)
			r.note("moq_runs")
			_, _, after := readStateL(outAbs)
			afterExists, _, _ := readStateL(outAbs)
			r.logf("%d %s v%d: prior=%v(%dB) exit=%d after=%v(%dB) clean_exit=%d %s", i, act, version, existed, len(before), res.Exit, afterExists, len(after), cl.exit, res.StderrFirstLine())
			if crashed, what := oracle.Crashed(res); crashed {
				r.bad("C19", "no-crash", "moq %v: %s", res.Argv, what)
				return
			}
			if cl.exit != 0 {
				r.note("clean_generation_rejected")
				continue
			}
			if rm {
				// (2) -rm: the result does not depend on what was at the -out path
				if res.Exit != 0 {
					r.bad("C15", "rm-independent", "step %d: `moq -rm` over prior content %s fails (%s) although a pristine copy generates fine", i, short(before), res.StderrFirstLine())
				} else if !bytes.Equal(after, cl.out) {
					r.bad("C15", "rm-independent", "step %d: `moq -rm` over prior content %s gives output that differs from a pristine generation: %s", i, short(before), diffLine(cl.out, after))
				}
				if existed && !bytes.Equal(before, cl.out) {
					rmOverBroken = true
				}
				continue
			}
			if existed && bytes.Equal(before, cl.out) {
				// (1) fixed point
				if res.Exit != 0 {
					r.bad("C15", "fixed-point", "step %d: regenerating over moq's own output fails: %s", i, res.StderrFirstLine())
				} else if !bytes.Equal(after, before) {
					r.bad("C15", "fixed-point", "step %d: regenerating over moq's own output changes it: %s", i, diffLine(before, after))
				}
				if bytes.Contains(cl.out, []byte("\" \"")) || aliasImport(cl.out) {
					regenOverOwnWithAlias = true
				}
				r.note("fixed_point_checked")
				continue
			}
			if !existed {
				if res.Exit != 0 {
					r.bad("C15", "first-generation", "step %d: generating into the absent file %s fails (%s) although stdout mode succeeds", i, outRel, res.StderrFirstLine())
				} else if !bytes.Equal(after, cl.out) {
					r.bad("C15", "first-generation", "step %d: -out file differs from the stdout-mode output of a pristine copy: %s", i, diffLine(cl.out, after))
				}
				continue
			}
			// stale / garbled prior without -rm: moq may fail; then the file must be untouched (C17's rule)
			if res.Exit != 0 && !bytes.Equal(after, before) {
				r.bad("C17", "out-untouched", "step %d: moq failed (%s) but changed the existing -out file", i, res.StderrFirstLine())
			}
			r.note("stale_prior_without_rm")
		}
	}
	r.nonTrivial = regenOverOwnWithAlias || rmOverBroken
}

func aliasImport(out []byte) bool {
	in := false
	for _, l := range strings.Split(string(out), "\n") {
		if strings.HasPrefix(l, "import (") {
			in = true
			continue
		}
		if in && l == ")" {
			return false
		}
		if in && strings.Count(strings.TrimSpace(l), " ") >= 1 {
			return true
		}
	}
	return false
}

func diffLine(a, b []byte) string {
	la, lb := strings.Split(string(a), "\n"), strings.Split(string(b), "\n")
	for i := 0; i < len(la) || i < len(lb); i++ {
		var x, y string
		if i < len(la) {
			x = la[i]
		}
		if i < len(lb) {
			y = lb[i]
		}
		if x != y {
			return fmt.Sprintf("line %d: %q vs %q", i+1, x, y)
		}
	}
	return "(equal)"
}
