package clifs

import (
	"bytes"
	"fmt"
	"io/fs"
	"os"
	"path/filepath"
	"sort"
	"strconv"
	"strings"

	"verif/vp/core"
	"verif/vp/oracle"
)

// evalFault executes one failure-point scenario and judges C17 (all-or-nothing) and C18 (nothing else touched).
func (h *H) evalFault(c *core.Case, s *Scenario, dir, world string, r *run) {
	root := c.Root(world)
	srcAbs := filepath.Join(root, c.SrcDir)
	rc := c.Clone()
	rc.Files = nil
	cfg := &rc.Cfg
	cfg.Out, cfg.Rm = "", false

	// C18: -pkg naming an existing / a missing sub-directory relative to the cwd
	switch s.PkgVariant {
	case "existing-dir":
		cfg.Invoke = "rootrel"
		var names []string
		for name := range c.Files {
			names = append(names, name)
		}
		sort.Strings(names)
		for _, name := range names {
			if strings.HasSuffix(name, ".go") && !strings.HasPrefix(name, c.SrcDir+"/") && strings.Count(name, "/") == 1 {
				cfg.Pkg = filepath.Dir(name)
				cfg.DestKind = "other"
				break
			}
		}
	case "missing-dir":
		cfg.Pkg = "nosuchdirpkg"
		cfg.DestKind = "other"
	case "needs-require":
		// -pkg names a directory whose package could only be loaded after a go.mod edit (a replaced module that
		// is not required): probing it must not make the go command rewrite go.mod
		if !c.Gopath {
			_ = os.MkdirAll(filepath.Join(root, "extmod", "pkg"), 0o755)
			_ = os.WriteFile(filepath.Join(root, "extmod", "go.mod"), []byte("module example.org/ext\n\ngo 1.24\n"), 0o644)
			_ = os.WriteFile(filepath.Join(root, "extmod", "pkg", "p.go"), []byte("package pkg\n\ntype T int\n"), 0o644)
			_ = os.MkdirAll(filepath.Join(root, "extuser"), 0o755)
			_ = os.WriteFile(filepath.Join(root, "extuser", "u.go"), []byte("package extuser\n\nimport \"example.org/ext/pkg\"\n\nvar _ pkg.T\n"), 0o644)
			if gm, err := os.ReadFile(filepath.Join(root, "go.mod")); err == nil {
				_ = os.WriteFile(filepath.Join(root, "go.mod"), append(gm, []byte("\nreplace example.org/ext => ./extmod\n")...), 0o644)
			}
			cfg.Invoke = "rootrel"
			cfg.Pkg = "extuser"
			cfg.DestKind = "other"
		}
	}

	// expected output: the same arguments in stdout mode on the pristine tree
	snap0 := Snapshot(dir)
	pristine := core.RunMoq(h.Env, rc, world)
	r.note("moq_runs")
	// without -out nothing in the tree is written at all (whether this run succeeds or fails)
	if ch := Diff(snap0, Snapshot(dir)); len(ch) > 0 {
		r.bad("C18", "stdout-mode-writes-nothing", "moq %v (no -out, exit %d) changed the tree: %v", pristine.Argv, pristine.Exit, ch)
		return
	}
	if crashed, what := oracle.Crashed(pristine); crashed {
		r.bad("C19", "no-crash", "moq %v: %s", pristine.Argv, what)
		return
	}
	goodOK := pristine.Exit == 0
	if !goodOK {
		r.note("good_config_rejected")
	}

	outAbs := ""
	if s.OutRel != "" {
		outAbs = filepath.Join(root, s.OutRel)
	}
	// prior state of the -out path
	var priorBytes []byte
	switch s.Prior {
	case "bytes":
		priorBytes = []byte("prior content \x00 that is not Go\n")
	case "good":
		if goodOK {
			priorBytes = pristine.Stdout
		} else {
			priorBytes = []byte("// stale\n")
		}
	case "otherfmt":
		// what the same arguments produce under another formatter (same tokens, other layout)
		priorBytes = []byte("// stale\n")
		if goodOK {
			alt := rc.Clone()
			alt.Cfg.Fmt = "noop"
			if cfg.Fmt == "noop" {
				alt.Cfg.Fmt = "gofmt"
			}
			if ar := core.RunMoq(h.Env, alt, world); ar.Exit == 0 && len(ar.Stdout) > 0 {
				priorBytes = ar.Stdout
			}
			r.note("moq_runs")
		}
	case "crlf":
		priorBytes = []byte("// stale\n")
		if goodOK {
			priorBytes = bytes.ReplaceAll(pristine.Stdout, []byte("\n"), []byte("\r\n"))
		}
	case "longer":
		// an earlier, longer output (still valid Go): what a shrinking interface list leaves behind
		priorBytes = append(append([]byte{}, pristine.Stdout...), []byte(strings.Repeat("\n// stale tail of an earlier, longer generation\n", 40))...)
		if !goodOK {
			priorBytes = []byte("// stale\n")
		}
	}
	mustFail := false
	sourceBroken := false
	if outAbs != "" && priorBytes != nil {
		_ = os.MkdirAll(filepath.Dir(outAbs), 0o755)
		_ = os.WriteFile(outAbs, priorBytes, 0o644)
		// a non-Go file with a .go name inside the source package breaks loading unless -rm removes it first
		if filepath.Dir(outAbs) == srcAbs && strings.HasSuffix(outAbs, ".go") && s.Prior == "bytes" && !s.Rm {
			mustFail = true
			sourceBroken = true
		}
	}

	var cleanup []func()
	defer func() {
		for _, f := range cleanup {
			f()
		}
	}()
	argvOverride := false
	switch s.Fault {
	case "stdoutfull":
		// standard output cannot take the bytes (ENOSPC): a failed write is a failure, not a silent success
		mustFail = goodOK
	case "none", "stdout":
	case "badflag":
		// the last thing before the source directory and the interface arguments (everything before it parses)
		cfg.LastFlags = []string{s.BadArg}
		mustFail = true
	case "noargs":
		cfg.RawArgv = []string{}
		if outAbs != "" {
			cfg.RawArgv = []string{"-out", outAbs}
		}
		argvOverride, mustFail = true, true
	case "onearg":
		cfg.RawArgv = []string{}
		if outAbs != "" {
			cfg.RawArgv = append(cfg.RawArgv, "-out", outAbs)
		}
		if s.Rm {
			cfg.RawArgv = append(cfg.RawArgv, "-rm")
		}
		cfg.RawArgv = append(cfg.RawArgv, ".")
		argvOverride, mustFail = true, true
	case "srcmissing":
		rc.SrcDir = "no/such/dir"
		cfg.Invoke = "rootrel"
		mustFail = true
	case "srcempty":
		_ = os.MkdirAll(filepath.Join(root, "emptydir"), 0o755)
		rc.SrcDir = "emptydir"
		cfg.Invoke = "rootrel"
		mustFail = true
	case "syntaxerr":
		_ = os.WriteFile(filepath.Join(srcAbs, "zz_broken.go"), []byte("package "+c.SrcName+"\n\nfunc {\n"), 0o644)
		mustFail, sourceBroken = true, true
	case "typeerr":
		_ = os.WriteFile(filepath.Join(srcAbs, "zz_broken.go"), []byte("package "+c.SrcName+"\n\nvar zzBroken int = \"s\"\n"), 0o644)
		mustFail, sourceBroken = true, true
	case "twopkgs":
		_ = os.WriteFile(filepath.Join(srcAbs, "zz_other.go"), []byte("package zzotherpkg\n"), 0o644)
		mustFail, sourceBroken = true, true
	case "badarg", "badarg-stdout":
		pos := s.BadPos
		if pos > len(cfg.Args) {
			pos = len(cfg.Args)
		}
		args := append([]string{}, cfg.Args[:pos]...)
		args = append(args, s.BadArg)
		args = append(args, cfg.Args[pos:]...)
		cfg.Args = args
		mustFail = true
	case "mkdirfail":
		_ = os.WriteFile(filepath.Join(root, "blocker"), []byte("a file where a directory is needed\n"), 0o644)
		s.OutRel = "blocker/sub/mock_gen.go"
		outAbs = filepath.Join(root, s.OutRel)
		mustFail = true
	case "outisemptydir":
		// an existing EMPTY directory at -out: the write fails (EISDIR) and the directory must stay
		_ = os.MkdirAll(outAbs, 0o755)
		if s.Rm {
			// -rm removes an empty directory: then the run is an ordinary successful generation
			mustFail = false
		} else {
			mustFail = true
		}
	case "outisdir", "rmfail":
		_ = os.MkdirAll(outAbs, 0o755)
		_ = os.WriteFile(filepath.Join(outAbs, "keep.txt"), []byte("precious\n"), 0o644)
		mustFail = true
	case "immutable":
		if err := chattr("+i", outAbs); err != nil {
			r.note("injector_unavailable")
			return
		}
		cleanup = append(cleanup, func() { _ = chattr("-i", outAbs) })
		mustFail = true
	case "immutabledir":
		lockDir := filepath.Join(root, "locked")
		_ = os.MkdirAll(lockDir, 0o755)
		s.OutRel = "locked/mock_gen.go"
		outAbs = filepath.Join(root, s.OutRel)
		if err := chattr("+i", lockDir); err != nil {
			r.note("injector_unavailable")
			return
		}
		cleanup = append(cleanup, func() { _ = chattr("-i", lockDir) })
		mustFail = true
	case "longname":
		s.OutRel = filepath.Dir(s.OutRel) + "/" + strings.Repeat("x", 300) + ".go"
		outAbs = filepath.Join(root, s.OutRel)
		mustFail = true
	case "fsize":
		mustFail = true
	}
	if !goodOK && !mustFail {
		// moq refuses this valid input already in stdout mode: nothing to learn about the -out path
		r.note("skipped_good_config_rejected")
		return
	}
	if !argvOverride {
		cfg.Out = s.OutRel
		cfg.Rm = s.Rm && s.OutRel != ""
	}

	priorExists, priorIsDir, priorContent := readState(outAbs)
	if outAbs == "" {
		priorExists = false
	}
	if s.EmptyParent && outAbs != "" {
		_ = os.MkdirAll(filepath.Dir(outAbs), 0o755)
		r.note("empty_parent_prepared")
	}
	if s.DirMode != "" && outAbs != "" {
		// the existing directory nearest to -out has a mode of its own (metadata is part of "left exactly as they were")
		if m, err := strconv.ParseUint(s.DirMode, 8, 32); err == nil {
			d := filepath.Dir(outAbs)
			for !isDir(d) && len(d) > len(root) {
				d = filepath.Dir(d)
			}
			if isDir(d) && strings.HasPrefix(d, root) {
				mode := fs.FileMode(m & 0o777)
				if m&0o2000 != 0 {
					mode |= fs.ModeSetgid
				}
				if m&0o1000 != 0 {
					mode |= fs.ModeSticky
				}
				if os.Chmod(d, mode) == nil {
					r.note("dir_mode_set")
				}
			}
		}
	}
	before := Snapshot(dir)
	var res *core.Result
	if s.Fault == "stdoutfull" {
		res = runWithStdoutFull(h.Env, rc, world)
	} else if s.Fault == "fsize" {
		// warm the go build cache with the identical package state, so that only moq's own write meets the limit
		warm := rc.Clone()
		warm.Cfg.Out, warm.Cfg.Rm = "", false
		_ = core.RunMoq(h.Env, warm, world)
		before = Snapshot(dir)
		res = runWithFsizeLimit(h.Env, rc, world, s.FsizeBlocks)
	} else {
		res = core.RunMoq(h.Env, rc, world)
	}
	r.note("moq_runs")
	for _, f := range cleanup {
		f()
	}
	cleanup = nil
	after := Snapshot(dir)
	changes := Diff(before, after)
	nowExists, nowIsDir, nowContent := readState(outAbs)
	if outAbs == "" {
		nowExists = false
	}
	outRelDir := ""
	if outAbs != "" {
		outRelDir, _ = filepath.Rel(dir, outAbs)
	}
	r.logf("fault=%s prior=%s rm=%v argv=%v exit=%d stderr=%q changes=%v", s.Fault, s.Prior, s.Rm, res.Argv, res.Exit, res.StderrFirstLine(), changes)

	if crashed, what := oracle.Crashed(res); crashed {
		r.bad("C19", "no-crash", "moq %v: %s", res.Argv, what)
		return
	}
	failed := res.Exit != 0
	if mustFail && !failed {
		r.bad("C17", "failure-exit-status", "fault %q was injected (%v) but moq exited 0", s.Fault, res.Argv)
	}
	rmRequested := cfg.Rm || (argvOverride && s.Rm)
	if failed {
		if strings.TrimSpace(string(res.Stderr)) == "" {
			r.bad("C17", "diagnostic", "moq %v exited %d without a diagnostic on standard error", res.Argv, res.Exit)
		}
		if looksLikeGoSource(res.Stdout) {
			r.bad("C17", "no-source-on-stdout", "moq %v failed (%s) but wrote Go source to standard output: %s", res.Argv, res.StderrFirstLine(), short(res.Stdout))
		}
		if outAbs != "" {
			same := priorExists == nowExists && priorIsDir == nowIsDir && bytes.Equal(priorContent, nowContent)
			gone := priorExists && !nowExists && rmRequested && !priorIsDir
			switch {
			case same || gone:
			case !priorExists && nowExists:
				r.bad("C17", "no-partial-file", "moq failed (%s) but left a new file at -out (%d bytes)", res.StderrFirstLine(), len(nowContent))
			default:
				r.bad("C17", "out-untouched", "moq failed (%s) but the existing -out file changed: %d bytes before, exists=%v %d bytes after", res.StderrFirstLine(), len(priorContent), nowExists, len(nowContent))
			}
		}
		for _, ch := range changes {
			if outRelDir != "" && ch == "-"+outRelDir && rmRequested {
				continue
			}
			if outRelDir != "" && ch[1:] == outRelDir {
				continue // judged above under C17
			}
			if outRelDir != "" && allowedChange(ch, outRelDir) && (!goodOK || s.Fault == "badarg" || sourceBroken || s.Fault == "srcmissing" || s.Fault == "srcempty") {
				// the failure lies before anything could be written (the same arguments fail in stdout mode as well):
				// "failures write nothing" - a directory created for an output that never existed is something written
				r.bad("C17", "failure-before-write-creates-nothing", "moq failed while loading/looking up (%s) and still created %s", res.StderrFirstLine(), ch[1:])
				r.note("parent_dirs_created_on_failed_run")
				continue
			}
			if outRelDir != "" && allowedChange(ch, outRelDir) {
				// C18's statement exempts "directories leading to" -out without restricting that to successful
				// runs: MkdirAll succeeding before WriteFile fails is within the statement (see DESIGN, Corrections)
				r.note("parent_dirs_created_on_failed_run")
				continue
			}
			r.bad("C18", "tree-unchanged-on-failure", "moq failed (%s) but changed the tree: %s (all changes %v)", res.StderrFirstLine(), ch, changes)
			break
		}
	} else {
		if outAbs != "" && !argvOverride {
			if !nowExists || nowIsDir {
				r.bad("C17", "success-writes-file", "moq %v exited 0 but there is no file at -out", res.Argv)
			} else if goodOK && !sourceBroken && (s.Prior == "absent" || s.Prior == "good" || s.Prior == "longer" || s.Prior == "otherfmt" || s.Prior == "crlf" || rmRequested) && s.Fault == "none" {
				if !bytes.Equal(nowContent, pristine.Stdout) {
					r.bad("C17", "success-complete-file", "-out file differs from the stdout-mode output of the same arguments: %s", diffLine(pristine.Stdout, nowContent))
				}
				r.note("success_compared_with_stdout_mode")
			}
			if len(res.Stdout) > 0 && looksLikeGoSource(res.Stdout) {
				r.note("stdout_also_written")
			}
		}
		if outAbs == "" && goodOK && !bytes.Equal(res.Stdout, pristine.Stdout) && s.Fault == "stdout" {
			r.bad("C14", "bytes-stable", "two stdout-mode runs differ")
		}
		for _, ch := range changes {
			if outRelDir != "" && allowedChange(ch, outRelDir) {
				continue
			}
			r.bad("C18", "only-out-written", "moq %v succeeded but changed more than the -out file: %s (all changes %v)", res.Argv, ch, changes)
			break
		}
	}
	// library level: the writer sees nothing on error paths and exactly one complete write on success
	if os.Getenv("VP_LIBCHILD") != "" && !argvOverride && (s.Fault == "badarg" || s.Fault == "none" || s.Fault == "srcmissing" || s.Fault == "typeerr" || s.Fault == "badarg-stdout" || s.Fault == "stdout") {
		h.libraryWriterCheck(rc, world, pristine, failed, r)
	}
	r.nonTrivial = (failed && priorExists) || (failed && s.Fault == "badarg" && s.BadPos > 0) || s.PkgVariant != "" || strings.Count(s.OutRel, "/") >= 2 || (failed && c.Prop == "C18")
}

func runWithStdoutFull(env core.Env, c *core.Case, world string) *core.Result {
	argv, cwd := c.Argv(world)
	var quoted []string
	for _, a := range argv {
		quoted = append(quoted, "'"+strings.ReplaceAll(a, "'", `'\''`)+"'")
	}
	script := fmt.Sprintf("exec '%s' %s > /dev/full", env.MoqBin, strings.Join(quoted, " "))
	res := core.RunCmd(env, c, world, cwd, "/bin/sh", []string{"-c", script}, env.Watchdog)
	res.Argv = append(argv, ">/dev/full")
	return res
}

func runWithFsizeLimit(env core.Env, c *core.Case, world string, blocks int) *core.Result {
	argv, cwd := c.Argv(world)
	var quoted []string
	for _, a := range argv {
		quoted = append(quoted, "'"+strings.ReplaceAll(a, "'", `'\''`)+"'")
	}
	script := fmt.Sprintf("trap '' XFSZ; ulimit -f %d; exec '%s' %s", blocks, env.MoqBin, strings.Join(quoted, " "))
	res := core.RunCmd(env, c, world, cwd, "/bin/sh", []string{"-c", script}, env.Watchdog)
	res.Argv = argv
	if p := c.OutAbs(world); p != "" {
		res.OutPath = p
	}
	return res
}

func (h *H) libraryWriterCheck(rc *core.Case, world string, pristine *core.Result, cliFailed bool, r *run) {
	x := oracle.NewCtx(h.Env, rc, nil, world)
	req := oracle.LibReq{Mode: "count", PkgName: rc.Cfg.Pkg, Formatter: rc.Cfg.Fmt, Stub: rc.Cfg.Stub, SkipEnsure: rc.Cfg.SkipEnsure,
		WithResets: rc.Cfg.WithResets, Args: rc.Cfg.Args, FailAfter: -1}
	argv, _ := rc.Argv(world)
	req.SrcDir = "."
	if n := len(rc.Cfg.Args); len(argv) > n {
		req.SrcDir = argv[len(argv)-n-1]
	}
	resp, lr := x.RunLib(req)
	r.note("moq_runs")
	if resp == nil {
		r.note("libchild_failed")
		r.logf("libchild: %s", lr.Stderr)
		return
	}
	libFailed := resp.NewErr != "" || resp.Err1 != "" || resp.Panic != ""
	if resp.Panic != "" {
		r.bad("C19", "no-crash", "library panicked: %s", resp.Panic)
		return
	}
	if libFailed {
		if resp.Writes != 0 {
			r.bad("C17", "writer-untouched-on-error", "Mock returned an error (%s%s) after %d Write calls (%d bytes) on the writer it was given", resp.NewErr, resp.Err1, resp.Writes, resp.Written)
		}
		r.note("library_error_paths")
	} else {
		if resp.Writes != 1 {
			r.bad("C17", "single-complete-write", "Mock succeeded with %d Write calls (sizes %v), expected exactly one", resp.Writes, resp.Sizes)
		} else if pristine.Exit == 0 && !cliFailed && resp.Sizes[0] != len(pristine.Stdout) && len(rc.Cfg.RawArgv) == 0 {
			r.note("library_size_differs_from_cli")
		}
		// a writer failing after b bytes: error returned after that single call
		req.FailAfter = resp.Written / 2
		if resp2, _ := x.RunLib(req); resp2 != nil {
			r.note("moq_runs")
			if resp2.Err1 == "" {
				r.bad("C17", "writer-error-reported", "the writer failed after %d bytes but Mock returned no error", req.FailAfter)
			} else if resp2.Writes != 1 {
				r.bad("C17", "single-complete-write", "failing writer saw %d Write calls", resp2.Writes)
			}
			r.note("library_failing_writer")
		}
	}
}

func isDir(p string) bool {
	st, err := os.Stat(p)
	return err == nil && st.IsDir()
}
