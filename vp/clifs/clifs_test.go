package clifs

import (
	"encoding/json"
	"fmt"
	"os"
	"testing"

	"pgregory.net/rapid"

	"verif/vp/core"
)

// TestCli runs one shard of a harness-F campaign (driven by cmd/vp).
func TestCli(t *testing.T) {
	prop := os.Getenv("VP_PROP")
	if prop == "" {
		t.Skip("VP_PROP not set")
	}
	h := NewH()
	defer h.WriteStats()
	rapid.Check(t, h.Property(prop))
}

// TestReplay re-runs one saved scenario without rapid.
func TestReplay(t *testing.T) {
	path := os.Getenv("VP_REPLAY")
	if path == "" {
		t.Skip("VP_REPLAY not set")
	}
	c, err := core.LoadCase(path)
	if err != nil {
		t.Fatal(err)
	}
	h := NewH()
	r := h.Eval(c, true)
	out := map[string]any{"invalid_world": r == nil}
	if r != nil {
		out["violations"] = r.vs
		out["trace"] = r.trace
	}
	b, _ := json.MarshalIndent(out, "", " ")
	_ = os.WriteFile(os.Getenv("VP_REPLAY_OUT"), b, 0o644)
	fmt.Println(string(b))
}
