module verif/vp

go 1.24

require pgregory.net/rapid v1.3.0
