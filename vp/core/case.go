// Package core holds the data model of one generated case (a Go "world" on
// disk plus a moq command line), its materialisation, and the runner that
// executes the moq binary built from /repo as a subprocess.
package core

import (
	"bytes"
	"context"
	"crypto/sha256"
	"encoding/hex"
	"encoding/json"
	"errors"
	"fmt"
	"os"
	"os/exec"
	"path/filepath"
	"sort"
	"strings"
	"syscall"
	"time"
)

// Config is one moq command line.
type Config struct {
	Stub       bool              `json:"stub,omitempty"`
	SkipEnsure bool              `json:"skip_ensure,omitempty"`
	WithResets bool              `json:"with_resets,omitempty"`
	DestKind   string            `json:"dest_kind"`        // implicit | same | other | test
	Pkg        string            `json:"pkg,omitempty"`    // value of -pkg ("" = absent)
	Fmt        string            `json:"fmt,omitempty"`    // "" | gofmt | goimports | noop
	Args       []string          `json:"args"`             // Iface or Iface:Alias
	Invoke     string            `json:"invoke,omitempty"` // srcdot | rootrel | foreignabs
	Out        string            `json:"out,omitempty"`    // "" = stdout; else path relative to the world root
	Rm         bool              `json:"rm,omitempty"`
	RelOut     bool              `json:"rel_out,omitempty"`    // pass -out relative to the working directory instead of absolute
	RawArgv    []string          `json:"raw_argv,omitempty"`   // if set: used verbatim (C17/C19 hostile invocations)
	BoolForm   map[string]string `json:"bool_form,omitempty"`  // flag name -> literal spelling used instead of the bare flag / omission (e.g. "-with-resets=false")
	LastFlags  []string          `json:"last_flags,omitempty"` // literal arguments placed after all flags, right in front of the source directory
}

// Case is a world plus a command line.
type Case struct {
	Prop     string            `json:"property,omitempty"`
	Oracle   string            `json:"oracle,omitempty"`
	Expect   string            `json:"expect,omitempty"`
	ModPath  string            `json:"mod_path"`
	Gopath   bool              `json:"gopath,omitempty"` // GOPATH+vendor layout: files live under src/<ModPath>/
	Files    map[string]string `json:"files"`
	Alt      map[string]string `json:"alt_files,omitempty"` // harness F: files of the evolved source version (v2) that differ from Files
	Scenario map[string]any    `json:"scenario,omitempty"`  // harness F/X: the drawn history / fault plan
	SrcDir   string            `json:"src_dir"`             // relative to the world root
	SrcPath  string            `json:"src_path"`            // import path of the source package
	SrcName  string            `json:"src_name"`
	Cfg      Config            `json:"config"`
	Labels   []string          `json:"labels,omitempty"`
	Note     string            `json:"note,omitempty"`
}

func (c *Case) HasLabel(l string) bool {
	for _, x := range c.Labels {
		if x == l {
			return true
		}
	}
	return false
}

func (c *Case) AddLabel(l string) {
	if !c.HasLabel(l) {
		c.Labels = append(c.Labels, l)
	}
}

// Hash is a stable content hash of the case (files + config).
func (c *Case) Hash() string {
	h := sha256.New()
	names := make([]string, 0, len(c.Files))
	for n := range c.Files {
		names = append(names, n)
	}
	sort.Strings(names)
	for _, n := range names {
		fmt.Fprintf(h, "%s\x00%s\x00", n, c.Files[n])
	}
	b, _ := json.Marshal(c.Cfg)
	h.Write(b)
	return hex.EncodeToString(h.Sum(nil))[:16]
}

// Clone returns a deep copy.
func (c *Case) Clone() *Case {
	b, _ := json.Marshal(c)
	var d Case
	_ = json.Unmarshal(b, &d)
	return &d
}

// Materialise writes the world under dir (which is created).
func (c *Case) Materialise(dir string) error {
	for rel, content := range c.Files {
		p := filepath.Join(dir, rel)
		if err := os.MkdirAll(filepath.Dir(p), 0o755); err != nil {
			return err
		}
		if err := os.WriteFile(p, []byte(content), 0o644); err != nil {
			return err
		}
	}
	return nil
}

// Env describes where the tools are.
type Env struct {
	MoqBin   string // moq built from /repo
	GoRoot   string // toolchain root used by moq's `go list`
	GoCache  string
	Home     string
	Watchdog time.Duration
	Extra    []string // additional environment of the tool processes (variables that are no input of moq)
}

func EnvFromOS() Env {
	wd := 40 * time.Second
	return Env{
		MoqBin:   os.Getenv("VP_MOQ"),
		GoRoot:   os.Getenv("VP_GOROOT"),
		GoCache:  os.Getenv("VP_GOCACHE"),
		Home:     os.Getenv("VP_HOME"),
		Watchdog: wd,
	}
}

// ToolEnv is the clean environment for moq and go subprocesses.
func (e Env) ToolEnv(c *Case, world string) []string {
	env := []string{
		"PATH=" + filepath.Join(e.GoRoot, "bin") + ":/usr/local/bin:/usr/bin:/bin",
		"GOROOT=" + e.GoRoot,
		"GOTOOLCHAIN=local",
		"GOFLAGS=",
		"GOPROXY=off",
		"GOSUMDB=off",
		"GONOSUMDB=*",
		"GOCACHE=" + e.GoCache,
		"HOME=" + e.Home,
		"GOTELEMETRY=off",
		"LC_ALL=C",
		// short-lived tool processes: fewer runtime threads and less GC work double the throughput of a 16-shard campaign
		"GOMAXPROCS=2",
		"GOGC=400",
		// pinned (it is the default here: a C compiler is installed): worlds may hold files constrained by the cgo tag
		"CGO_ENABLED=1",
	}
	if d := os.Getenv("VP_COVER"); d != "" {
		env = append(env, "GOCOVERDIR="+d)
	}
	env = append(env, e.Extra...)
	if c != nil && c.Gopath {
		env = append(env, "GO111MODULE=off", "GOPATH="+world)
	} else {
		env = append(env, "GOPATH="+filepath.Join(e.Home, "gopath"))
	}
	return env
}

// Result is what one moq run did.
type Result struct {
	Argv      []string      `json:"argv"`
	Cwd       string        `json:"cwd"`
	Exit      int           `json:"exit"`
	Signal    string        `json:"signal,omitempty"`
	TimedOut  bool          `json:"timed_out,omitempty"`
	Stdout    []byte        `json:"-"`
	Stderr    []byte        `json:"-"`
	Wall      time.Duration `json:"wall_ns"`
	OutPath   string        `json:"out_path,omitempty"` // absolute path of -out
	OutExists bool          `json:"out_exists"`
	OutBytes  []byte        `json:"-"`
}

// Output returns the generated text: the -out file when one was requested, stdout otherwise.
func (r *Result) Output() []byte {
	if r.OutPath != "" {
		return r.OutBytes
	}
	return r.Stdout
}

func (r *Result) StderrFirstLine() string {
	s := string(r.Stderr)
	if i := strings.IndexByte(s, '\n'); i >= 0 {
		s = s[:i]
	}
	return s
}

// Root returns the directory under world where the module (or GOPATH package tree) lives.
func (c *Case) Root(world string) string {
	if c.Gopath {
		return filepath.Join(world, "src", c.ModPath)
	}
	return world
}

// Argv builds the moq argument vector and working directory for the case.
func (c *Case) Argv(world string) (argv []string, cwd string) {
	root := c.Root(world)
	if len(c.Cfg.RawArgv) > 0 {
		return append([]string(nil), c.Cfg.RawArgv...), filepath.Join(root, c.SrcDir)
	}
	cfg := c.Cfg
	var srcArg string
	switch cfg.Invoke {
	case "rootrel":
		cwd = root
		srcArg = "./" + c.SrcDir
		if c.SrcDir == "" || c.SrcDir == "." {
			srcArg = "."
		}
	case "foreignabs":
		cwd = filepath.Join(world, "..", "foreign")
		srcArg = filepath.Join(root, c.SrcDir)
	default:
		cwd = filepath.Join(root, c.SrcDir)
		srcArg = "."
	}
	boolFlag := func(name string, v bool) {
		if form := cfg.BoolForm[name]; form != "" {
			argv = append(argv, form)
		} else if v {
			argv = append(argv, "-"+name)
		}
	}
	boolFlag("stub", cfg.Stub)
	boolFlag("skip-ensure", cfg.SkipEnsure)
	boolFlag("with-resets", cfg.WithResets)
	if cfg.Pkg != "" {
		argv = append(argv, "-pkg", cfg.Pkg)
	}
	if cfg.Fmt != "" {
		argv = append(argv, "-fmt", cfg.Fmt)
	}
	if cfg.Rm {
		argv = append(argv, "-rm")
	}
	if cfg.Out != "" {
		out := filepath.Join(root, cfg.Out)
		if cfg.RelOut {
			if rel, err := filepath.Rel(cwd, out); err == nil {
				out = rel
			}
		}
		argv = append(argv, "-out", out)
	}
	argv = append(argv, cfg.LastFlags...)
	argv = append(argv, srcArg)
	argv = append(argv, cfg.Args...)
	return argv, cwd
}

// OutAbs returns the absolute -out path ("" when writing to stdout).
func (c *Case) OutAbs(world string) string {
	if c.Cfg.Out == "" {
		return ""
	}
	return filepath.Join(c.Root(world), c.Cfg.Out)
}

// RunMoq runs the moq binary on a materialised case.
func RunMoq(e Env, c *Case, world string) *Result {
	argv, cwd := c.Argv(world)
	_ = os.MkdirAll(cwd, 0o755)
	r := RunCmd(e, c, world, cwd, e.MoqBin, argv, e.Watchdog)
	if p := c.OutAbs(world); p != "" && len(c.Cfg.RawArgv) == 0 {
		r.OutPath = p
		if b, err := os.ReadFile(p); err == nil {
			r.OutExists = true
			r.OutBytes = b
		}
	}
	return r
}

// RunCmd runs any tool with the clean environment and a watchdog.
func RunCmd(e Env, c *Case, world, cwd, bin string, argv []string, watchdog time.Duration) *Result {
	ctx, cancel := context.WithTimeout(context.Background(), watchdog)
	defer cancel()
	cmd := exec.CommandContext(ctx, bin, argv...)
	cmd.Dir = cwd
	cmd.Env = e.ToolEnv(c, world)
	cmd.SysProcAttr = &syscall.SysProcAttr{Setpgid: true}
	cmd.Cancel = func() error {
		return syscall.Kill(-cmd.Process.Pid, syscall.SIGKILL)
	}
	cmd.WaitDelay = 5 * time.Second
	var so, se bytes.Buffer
	cmd.Stdout, cmd.Stderr = &so, &se
	t0 := time.Now()
	err := cmd.Run()
	r := &Result{Argv: argv, Cwd: cwd, Stdout: so.Bytes(), Stderr: se.Bytes(), Wall: time.Since(t0)}
	if ctx.Err() != nil {
		r.TimedOut = true
	}
	if err != nil {
		var ee *exec.ExitError
		if errors.As(err, &ee) {
			r.Exit = ee.ExitCode()
			if ws, ok := ee.Sys().(syscall.WaitStatus); ok && ws.Signaled() {
				r.Signal = ws.Signal().String()
				r.Exit = -1
			}
		} else {
			r.Exit = -2
			r.Stderr = append(r.Stderr, []byte("\n[harness] "+err.Error())...)
		}
	}
	return r
}

// Save writes the case as a replay directory: case.json plus the plain world files.
func (c *Case) Save(dir string) error {
	if err := os.MkdirAll(dir, 0o755); err != nil {
		return err
	}
	b, err := json.MarshalIndent(c, "", " ")
	if err != nil {
		return err
	}
	if err := os.WriteFile(filepath.Join(dir, "case.json"), b, 0o644); err != nil {
		return err
	}
	return c.Materialise(filepath.Join(dir, "world"))
}

// LoadCase reads case.json from a replay directory (or a plain json file).
func LoadCase(path string) (*Case, error) {
	st, err := os.Stat(path)
	if err != nil {
		return nil, err
	}
	if st.IsDir() {
		path = filepath.Join(path, "case.json")
	}
	b, err := os.ReadFile(path)
	if err != nil {
		return nil, err
	}
	var c Case
	if err := json.Unmarshal(b, &c); err != nil {
		return nil, err
	}
	return &c, nil
}
