package oracle

import (
	"bytes"
	"encoding/json"
	"fmt"
	"go/ast"
	"go/format"
	"go/parser"
	"go/printer"
	"go/token"
	"go/types"
	"os"
	"path/filepath"
	"regexp"
	"sort"
	"strconv"
	"strings"

	"verif/vp/core"
	"verif/vp/tc"
)

func tierThorough() bool { return os.Getenv("VP_TIER") == "thorough" }

// LibReq is the request understood by the libchild helper (public library API, child process).
type LibReq struct {
	Mode       string   `json:"mode"` // twice | count
	SrcDir     string   `json:"src_dir"`
	PkgName    string   `json:"pkg_name"`
	Formatter  string   `json:"formatter"`
	Stub       bool     `json:"stub"`
	SkipEnsure bool     `json:"skip_ensure"`
	WithResets bool     `json:"with_resets"`
	Args       []string `json:"args"`
	FailAfter  int      `json:"fail_after"` // count mode: writer fails once more than this many bytes were accepted (-1: never)
	Out1       string   `json:"out1"`
	Out2       string   `json:"out2"`
}

// LibResp is what libchild prints.
type LibResp struct {
	Err1    string `json:"err1"`
	Err2    string `json:"err2"`
	NewErr  string `json:"new_err"`
	Writes  int    `json:"writes"`
	Sizes   []int  `json:"sizes"`
	Written int    `json:"written"`
	Panic   string `json:"panic"`
}

// RunLib runs the libchild helper from the cwd the CLI would use.
func (x *Ctx) RunLib(req LibReq) (*LibResp, *core.Result) {
	argv, cwd := x.Case.Argv(x.Dir)
	_ = argv
	b, _ := json.Marshal(req)
	r := core.RunCmd(x.Env, x.Case, x.Dir, cwd, os.Getenv("VP_LIBCHILD"), []string{string(b)}, x.Env.Watchdog)
	var resp LibResp
	if err := json.Unmarshal(bytes.TrimSpace(r.Stdout), &resp); err != nil {
		return nil, r
	}
	return &resp, r
}

func (x *Ctx) libReq(mode string) LibReq {
	c := x.Case
	argv, _ := c.Argv(x.Dir)
	// the source-dir argument is the first non-flag argument the CLI gets
	srcArg := "."
	n := len(c.Cfg.Args)
	if len(argv) > n {
		srcArg = argv[len(argv)-n-1]
	}
	return LibReq{Mode: mode, SrcDir: srcArg, PkgName: c.Cfg.Pkg, Formatter: c.Cfg.Fmt, Stub: c.Cfg.Stub, SkipEnsure: c.Cfg.SkipEnsure,
		WithResets: c.Cfg.WithResets, Args: c.Cfg.Args, FailAfter: -1}
}

// C14: output is a deterministic function of source package and options.
func C14(x *Ctx) []Violation {
	r0 := x.Run()
	if crashed, _ := Crashed(r0); crashed {
		x.Note("crashed_not_judged")
		return nil
	}
	var vs []Violation
	k := 3
	if tierThorough() {
		k = 7
	}
	if x.Case.HasLabel("alias:other-pkg-name") || x.Case.HasLabel("import:sanitise-equal-triple") || x.Case.HasLabel("alias:differs-between-files") {
		k += 3 // order-dependent conflict resolution shows in a fraction of the processes only
	}
	if x.Case.HasLabel("alias:other-pkg-name") {
		k += 4 // an alias equal to another package's name: the order of two renames decides (about 1 process in 8)
	}
	for i := 0; i < k; i++ {
		saved := x.Env.Extra
		if i == 0 {
			// the same command line as `go generate` runs it: these variables are no input of moq
			x.Env.Extra = append(append([]string{}, saved...), "GOPACKAGE=zzgeneratingpkg", "GOFILE=zz_generate.go", "GOLINE=7", "DOLLAR=$")
			x.Note("runs_with_go_generate_environment")
		}
		_, r := x.RunWith(func(cfg *core.Config) {})
		x.Env.Extra = saved
		if r.Exit != r0.Exit {
			vs = append(vs, Violation{"C14", "exit-stable", fmt.Sprintf("run %d exits %d, first run exited %d (same command line %v)", i+2, r.Exit, r0.Exit, r0.Argv)})
			break
		}
		if r0.Exit == 0 && !bytes.Equal(r.Output(), r0.Output()) {
			vs = append(vs, Violation{"C14", "bytes-stable", fmt.Sprintf("run %d of the same command line %v produced different output: %s", i+2, r0.Argv, firstDiff(r0.Output(), r.Output()))})
			break
		}
		if r0.Exit != 0 && stableErrLine(r.StderrFirstLine()) != stableErrLine(r0.StderrFirstLine()) {
			vs = append(vs, Violation{"C14", "diagnostic-stable", fmt.Sprintf("run %d reports %q, first run %q", i+2, r.StderrFirstLine(), r0.StderrFirstLine())})
			break
		}
	}
	// fresh generator instances inside one process (public API)
	if r0.Exit == 0 && len(vs) == 0 && os.Getenv("VP_LIBCHILD") != "" {
		req := x.libReq("twice")
		req.Out1 = filepath.Join(x.Dir, "..", "lib1.out")
		req.Out2 = filepath.Join(x.Dir, "..", "lib2.out")
		resp, lr := x.RunLib(req)
		if resp == nil {
			x.Note("libchild_failed")
			x.Extra["libchild_stderr"] = firstN(string(lr.Stderr), 300)
		} else if resp.Err1 != "" || resp.Err2 != "" || resp.NewErr != "" {
			vs = append(vs, Violation{"C14", "library-agrees", fmt.Sprintf("the CLI succeeded but the library reports %q / %q / %q", resp.NewErr, resp.Err1, resp.Err2)})
		} else {
			b1, _ := os.ReadFile(req.Out1)
			b2, _ := os.ReadFile(req.Out2)
			if !bytes.Equal(b1, b2) {
				vs = append(vs, Violation{"C14", "bytes-stable-in-process", "two fresh generator instances in one process differ: " + firstDiff(b1, b2)})
			} else if !bytes.Equal(b1, r0.Output()) {
				vs = append(vs, Violation{"C14", "bytes-stable-library-vs-cli", "library output differs from CLI output: " + firstDiff(r0.Output(), b1)})
			}
			x.Note("in_process_pairs")
		}
	}
	if r0.Exit == 0 {
		if f, err := parser.ParseFile(token.NewFileSet(), "o.go", r0.Output(), parser.ImportsOnly); err == nil {
			aliases := 0
			for _, im := range f.Imports {
				if im.Name != nil {
					aliases++
				}
			}
			renamed := bytes.Contains(r0.Output(), []byte("MoqParam")) || regexp.MustCompile(`\b[a-z]+[12] `).Match(r0.Output())
			if len(f.Imports) >= 3 || aliases > 0 || renamed {
				x.NonTrivial = true
			}
		}
	}
	return vs
}

var tmpPathRe = regexp.MustCompile(`/var/tmp/[^ :]*|/tmp/[^ :]*`)

func stableErrLine(s string) string { return tmpPathRe.ReplaceAllString(s, "<tmp>") }

func firstN(s string, n int) string {
	if len(s) > n {
		return s[:n]
	}
	return s
}

func firstDiff(a, b []byte) string {
	la, lb := strings.Split(string(a), "\n"), strings.Split(string(b), "\n")
	for i := 0; i < len(la) || i < len(lb); i++ {
		var x, y string
		if i < len(la) {
			x = la[i]
		}
		if i < len(lb) {
			y = lb[i]
		}
		if x != y {
			return fmt.Sprintf("line %d: %q vs %q", i+1, x, y)
		}
	}
	return "(no line difference)"
}

// ---------------------------------------------------------------- C16

var generatedRe = regexp.MustCompile(`^// Code generated .* DO NOT EDIT\.$`)

func importPathSet(f *ast.File) []string {
	var s []string
	for _, im := range f.Imports {
		p, _ := strconv.Unquote(im.Path.Value)
		s = append(s, p)
	}
	sort.Strings(s)
	return s
}

func declStrings(fset *token.FileSet, f *ast.File) []string {
	var out []string
	for _, d := range f.Decls {
		if gd, ok := d.(*ast.GenDecl); ok && gd.Tok == token.IMPORT {
			continue
		}
		var b bytes.Buffer
		_ = printer.Fprint(&b, fset, d)
		out = append(out, b.String())
	}
	return out
}

// C16: formatter choice changes layout only; default output is gofmt-canonical.
func C16(x *Ctx) []Violation {
	run := func(f string) *core.Result {
		_, r := x.RunWith(func(cfg *core.Config) { cfg.Fmt = f; cfg.Out = "" })
		return r
	}
	def := run("")
	x.Res = def
	x.Judged = def.Stdout
	if def.Exit != 0 {
		x.Note("rejected_valid_inputs")
		return nil
	}
	var vs []Violation
	bad := func(oracle, format string, a ...any) {
		vs = append(vs, Violation{"C16", oracle, fmt.Sprintf(format, a...)})
	}
	out := def.Stdout
	if g := run("gofmt"); g.Exit != 0 || !bytes.Equal(g.Stdout, out) {
		bad("gofmt-is-default", "-fmt gofmt (exit %d) differs from the default formatter: %s", g.Exit, firstDiff(out, g.Stdout))
	}
	if canon, err := format.Source(out); err != nil {
		bad("gofmt-canonical", "default output is rejected by go/format: %v", err)
	} else if !bytes.Equal(canon, out) {
		bad("gofmt-canonical", "default output is not what gofmt would leave unchanged: %s", firstDiff(out, canon))
	}
	lines := strings.SplitN(string(out), "\n", 2)
	if lines[0] != "// Code generated by moq; DO NOT EDIT." || !generatedRe.MatchString(lines[0]) {
		bad("marker-line", "first line is %q, not the standard generated-code marker", lines[0])
	}
	if n := run("noop"); n.Exit != 0 {
		bad("noop-layout-only", "-fmt noop fails (exit %d: %s) where the default formatter succeeds", n.Exit, n.StderrFirstLine())
	} else if canon, err := format.Source(n.Stdout); err != nil {
		bad("noop-layout-only", "gofmt rejects the -fmt noop output: %v", err)
	} else if !bytes.Equal(canon, out) {
		bad("noop-layout-only", "gofmt applied to the -fmt noop output differs from the default output: %s", firstDiff(out, canon))
	}
	// the same holds for a file: what -out held before (here: the same tokens in the noop layout, or with CRLF
	// line ends) has no influence on the layout moq writes
	if n := run("noop"); n.Exit == 0 && len(vs) == 0 && x.Case.Hash()[0]%3 == 0 {
		rel := "zz_c16_out/mock_gen.go"
		abs := filepath.Join(x.Case.Root(x.Dir), rel)
		prior := n.Stdout
		if x.Case.Hash()[1]%2 == 0 {
			prior = bytes.ReplaceAll(out, []byte("\n"), []byte("\r\n"))
		}
		if os.MkdirAll(filepath.Dir(abs), 0o755) == nil && os.WriteFile(abs, prior, 0o644) == nil {
			_, r := x.RunWith(func(cfg *core.Config) { cfg.Fmt = ""; cfg.Out = rel })
			if r.Exit != 0 {
				bad("out-file-canonical", "the default formatter with -out over an earlier differently laid out file fails: exit %d %s", r.Exit, r.StderrFirstLine())
			} else if !bytes.Equal(r.OutBytes, out) {
				bad("out-file-canonical", "-out over a file holding the same source in another layout leaves something else than the default output: %s", firstDiff(out, r.OutBytes))
			}
			_ = os.RemoveAll(filepath.Dir(abs))
			x.Note("out_file_over_other_layout")
		}
	}
	gi := run("goimports")
	if gi.Exit != 0 {
		bad("goimports-layout-only", "-fmt goimports fails (exit %d: %s) where the default formatter succeeds", gi.Exit, gi.StderrFirstLine())
	} else {
		fset := token.NewFileSet()
		fd, err1 := parser.ParseFile(fset, "default.go", out, parser.ParseComments)
		fg, err2 := parser.ParseFile(fset, "goimports.go", gi.Stdout, parser.ParseComments)
		if err1 != nil || err2 != nil {
			if err2 != nil && err1 == nil {
				bad("goimports-layout-only", "goimports output does not parse: %v", err2)
			}
		} else {
			a, b := importPathSet(fd), importPathSet(fg)
			if strings.Join(a, "\n") != strings.Join(b, "\n") {
				bad("goimports-same-imports", "goimports output imports %v, default output imports %v", b, a)
			}
			da, db := declStrings(fset, fd), declStrings(fset, fg)
			if len(da) != len(db) {
				bad("goimports-same-decls", "goimports output has %d declarations, default output %d", len(db), len(da))
			} else {
				for i := range da {
					if da[i] != db[i] {
						bad("goimports-same-decls", "declaration %d differs: %s", i, firstDiff([]byte(da[i]), []byte(db[i])))
						break
					}
				}
			}
			if lines := strings.SplitN(string(gi.Stdout), "\n", 2); lines[0] != "// Code generated by moq; DO NOT EDIT." {
				bad("marker-line", "first line of the goimports output is %q", lines[0])
			}
			std, nonstd := 0, 0
			for _, p := range a {
				if strings.Contains(p, ".") {
					nonstd++
				} else {
					std++
				}
			}
			if std > 0 && nonstd > 0 {
				x.NonTrivial = true
			}
		}
	}
	for _, l := range strings.Split(string(out), "\n") {
		if len(l) > 100 {
			x.NonTrivial = true
			break
		}
	}
	return vs
}

// ---------------------------------------------------------------- C20

// stripNames rebuilds a type without parameter names so signatures compare as types.
func stripNames(t types.Type) types.Type {
	switch t := t.(type) {
	case *types.Signature:
		strip := func(tu *types.Tuple) *types.Tuple {
			vars := make([]*types.Var, tu.Len())
			for i := range vars {
				vars[i] = types.NewVar(token.NoPos, nil, "", stripNames(tu.At(i).Type()))
			}
			return types.NewTuple(vars...)
		}
		return types.NewSignatureType(nil, nil, nil, strip(t.Params()), strip(t.Results()), t.Variadic())
	case *types.Pointer:
		return types.NewPointer(stripNames(t.Elem()))
	case *types.Slice:
		return types.NewSlice(stripNames(t.Elem()))
	case *types.Array:
		return types.NewArray(stripNames(t.Elem()), t.Len())
	case *types.Map:
		return types.NewMap(stripNames(t.Key()), stripNames(t.Elem()))
	case *types.Chan:
		return types.NewChan(t.Dir(), stripNames(t.Elem()))
	case *types.Struct:
		fs := make([]*types.Var, t.NumFields())
		tags := make([]string, t.NumFields())
		for i := range fs {
			f := t.Field(i)
			fs[i] = types.NewField(token.NoPos, f.Pkg(), f.Name(), stripNames(f.Type()), f.Embedded())
			tags[i] = t.Tag(i)
		}
		return types.NewStruct(fs, tags)
	}
	return t
}

func fullPathQualifier(p *types.Package) string { return p.Path() }

// mockShape is a canonical description of a mock type: fields and methods as types.
func mockShape(d *tc.Dest, mock string) (shape []string, ok bool) {
	if d.Pkg == nil {
		return nil, false
	}
	tn, _ := d.Pkg.Scope().Lookup(mock).(*types.TypeName)
	if tn == nil {
		return nil, false
	}
	named, isNamed := tn.Type().(*types.Named)
	if !isNamed {
		return nil, false
	}
	if tp := named.TypeParams(); tp != nil {
		for i := 0; i < tp.Len(); i++ {
			// the *name* of a type parameter is a spelling (moq invents one for blank type parameters and avoids import
			// qualifiers registered so far, which differ between a joint and a solo run): position and constraint count
			shape = append(shape, fmt.Sprintf("tparam %d %s", i, types.TypeString(tp.At(i).Constraint(), fullPathQualifier)))
		}
	}
	st, isStruct := named.Underlying().(*types.Struct)
	if !isStruct {
		return nil, false
	}
	for i := 0; i < st.NumFields(); i++ {
		f := st.Field(i)
		ts := types.TypeString(stripNames(f.Type()), fullPathQualifier)
		if f.Name() == "calls" {
			ts = callsShape(f.Type())
		}
		shape = append(shape, "field "+f.Name()+" "+ts)
	}
	ms := types.NewMethodSet(types.NewPointer(named))
	for i := 0; i < ms.Len(); i++ {
		sel := ms.At(i)
		desc := types.TypeString(stripNames(sel.Type()), fullPathQualifier)
		if sig, ok := sel.Type().(*types.Signature); ok && strings.HasSuffix(sel.Obj().Name(), "Calls") && sig.Params().Len() == 0 && sig.Results().Len() == 1 {
			if _, isRec := sig.Results().At(0).Type().(*types.Slice); isRec {
				desc = "func() " + recordShape(sig.Results().At(0).Type())
			}
		}
		shape = append(shape, "method "+sel.Obj().Name()+" "+desc)
	}
	return shape, true
}

// recordShape prints a call record ([]struct{...}) with positional field names: the record's field names
// follow parameter spellings, which may legitimately differ between a joint and a solo run.
func recordShape(t types.Type) string {
	sl, ok := t.(*types.Slice)
	if !ok {
		return types.TypeString(stripNames(t), fullPathQualifier)
	}
	st, ok := sl.Elem().(*types.Struct)
	if !ok {
		return types.TypeString(stripNames(t), fullPathQualifier)
	}
	var parts []string
	for i := 0; i < st.NumFields(); i++ {
		parts = append(parts, types.TypeString(stripNames(st.Field(i).Type()), fullPathQualifier))
	}
	return "[]record{" + strings.Join(parts, "; ") + "}"
}

// callsShape prints the calls struct: method name -> record shape.
func callsShape(t types.Type) string {
	st, ok := t.(*types.Struct)
	if !ok {
		return types.TypeString(t, fullPathQualifier)
	}
	var parts []string
	for i := 0; i < st.NumFields(); i++ {
		parts = append(parts, st.Field(i).Name()+" "+recordShape(st.Field(i).Type()))
	}
	return "struct{" + strings.Join(parts, "; ") + "}"
}

// C20: one mock per requested interface, named as requested, independent of the others.
func C20(x *Ctx) []Violation {
	if !x.Accepted() {
		return nil
	}
	d := x.Dest()
	if d.File == nil {
		x.Note("prerequisite_failed")
		return nil
	}
	var vs []Violation
	bad := func(oracle, format string, a ...any) {
		vs = append(vs, Violation{"C20", oracle, fmt.Sprintf(format, a...)})
	}
	reqs := Requests(x.Case.Cfg.Args)
	var want, got []string
	mocks := map[string]bool{}
	for _, r := range reqs {
		want = append(want, r.Mock)
		mocks[r.Mock] = true
	}
	for _, ts := range typeSpecs(d.File) {
		got = append(got, ts.Name.Name)
		if _, isStruct := ts.Type.(*ast.StructType); !isStruct {
			bad("mock-is-struct", "top-level type %s is not a struct", ts.Name.Name)
		}
	}
	if strings.Join(want, ",") != strings.Join(got, ",") {
		bad("mock-names-in-order", "requested mocks %v (in argument order), declared types %v", want, got)
	}
	ensure := 0
	for _, decl := range d.File.Decls {
		switch decl := decl.(type) {
		case *ast.GenDecl:
			switch decl.Tok {
			case token.IMPORT, token.TYPE:
			case token.VAR:
				for _, s := range decl.Specs {
					vsp := s.(*ast.ValueSpec)
					if len(vsp.Names) == 1 && vsp.Names[0].Name == "_" {
						ensure++
					} else {
						bad("nothing-else-declared", "unexpected variable declaration %v", vsp.Names)
					}
				}
			default:
				bad("nothing-else-declared", "unexpected %s declaration", decl.Tok)
			}
		case *ast.FuncDecl:
			// the self-check of a generic mock may be written inside a blank generic function
			if decl.Recv == nil && decl.Name.Name == "_" && decl.Type.TypeParams != nil {
				ensure++
				continue
			}
			ok := false
			for m := range mocks {
				for _, fd := range mockMethodDecls(d.File, m) {
					if fd == decl {
						ok = true
					}
				}
			}
			if !ok {
				bad("nothing-else-declared", "function %s does not belong to a requested mock", decl.Name.Name)
			}
		}
	}
	wantEnsure := len(reqs)
	if x.Case.Cfg.SkipEnsure {
		wantEnsure = 0
	}
	if ensure != wantEnsure {
		bad("ensure-lines", "%d self-check lines for %d mocks (skip-ensure=%v)", ensure, len(reqs), x.Case.Cfg.SkipEnsure)
	}
	// differential: joint vs solo
	if len(reqs) >= 2 && len(vs) == 0 {
		shared := map[string]int{}
		for i, arg := range x.Case.Cfg.Args {
			r := reqs[i]
			c2, res := x.RunWith(func(cfg *core.Config) { cfg.Args = []string{arg}; cfg.Out = "" })
			if res.Exit != 0 {
				// joint accepted but solo refused: the runs are not independent
				if !x.ViaNoop {
					bad("joint-vs-solo", "generating %s alone fails (%s) although the joint run succeeds", arg, res.StderrFirstLine())
				}
				continue
			}
			_ = c2
			ds := x.World.CheckOutput(res.Stdout)
			js, ok1 := mockShape(d, r.Mock)
			ss, ok2 := mockShape(ds, r.Mock)
			if !ok1 || !ok2 {
				x.Note("prerequisite_failed")
				continue
			}
			if strings.Join(js, "\n") != strings.Join(ss, "\n") {
				bad("joint-vs-solo", "mock %s differs between the joint run %v and the solo run: %s", r.Mock, x.Case.Cfg.Args, firstDiff([]byte(strings.Join(js, "\n")), []byte(strings.Join(ss, "\n"))))
			}
			if ds.File != nil {
				for _, p := range importPathSet(ds.File) {
					if p != "sync" {
						shared[p]++
					}
				}
			}
		}
		for _, n := range shared {
			if n >= 2 {
				x.NonTrivial = true
			}
		}
	}
	return vs
}
