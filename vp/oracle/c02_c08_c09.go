package oracle

import (
	"fmt"
	"go/ast"
	"go/token"
	"go/types"
	"sort"
	"strings"

	"verif/vp/tc"
)

// signatureChecks compares *K (or *K[args]) with I (or I[args]): every method of I's complete method
// set is present with an identical signature, MFunc fields exist once with an identical func type, the
// method set of *K is exact, and *K is assignable to I. prop/oraclePrefix tag the violations.
func signatureChecks(d *tc.Dest, p *Pair, it types.Type, kt types.Type, withResets bool, prop string, what string) []Violation {
	var vs []Violation
	bad := func(oracle, format string, a ...any) {
		vs = append(vs, Violation{prop, oracle, what + fmt.Sprintf(format, a...)})
	}
	iface, ok := it.Underlying().(*types.Interface)
	if !ok {
		return nil
	}
	iface = iface.Complete()
	ptr := types.NewPointer(kt)
	mset := types.NewMethodSet(ptr)
	st, ok := kt.Underlying().(*types.Struct)
	if !ok {
		bad("mock-struct", "mock %s is not a struct type", p.Mock)
		return vs
	}
	fieldTypes := map[string][]types.Type{}
	for i := 0; i < st.NumFields(); i++ {
		f := st.Field(i)
		fieldTypes[f.Name()] = append(fieldTypes[f.Name()], f.Type())
	}
	want := map[string]bool{}
	for i := 0; i < iface.NumMethods(); i++ {
		m := iface.Method(i)
		name := m.Name()
		want[name] = true
		want[name+"Calls"] = true
		if withResets {
			want["Reset"+name+"Calls"] = true
		}
		sel := mset.Lookup(m.Pkg(), name)
		if sel == nil {
			bad("method-missing", "*%s has no method %s of %s's method set", p.Mock, name, p.Iface)
			continue
		}
		if !types.Identical(sel.Type(), m.Type()) {
			bad("signature-identical", "method %s: mock has %s, interface has %s", name, sel.Type(), m.Type())
		}
		fts := fieldTypes[name+"Func"]
		if len(fts) != 1 {
			bad("func-field", "method %s: %d fields named %sFunc", name, len(fts), name)
			continue
		}
		msig := m.Type().(*types.Signature)
		fsig, ok := fts[0].(*types.Signature)
		if !ok {
			bad("func-field", "field %sFunc is not a func: %s", name, fts[0])
			continue
		}
		plain := types.NewSignatureType(nil, nil, nil, msig.Params(), msig.Results(), msig.Variadic())
		if !types.Identical(fsig, plain) {
			bad("func-field", "field %sFunc has type %s, method signature is %s", name, fsig, plain)
		}
		if prop == "C09" {
			// the call record uses the type parameters exactly where the interface does
			if csel := mset.Lookup(m.Pkg(), name+"Calls"); csel != nil {
				ok := false
				if cs, isSig := csel.Type().(*types.Signature); isSig && cs.Results().Len() == 1 {
					if sl, isSl := cs.Results().At(0).Type().(*types.Slice); isSl {
						if rec, isSt := sl.Elem().(*types.Struct); isSt && rec.NumFields() == msig.Params().Len() {
							ok = true
							for j := 0; j < rec.NumFields(); j++ {
								if !types.Identical(rec.Field(j).Type(), msig.Params().At(j).Type()) {
									ok = false
								}
							}
						}
					}
				}
				if !ok {
					bad("call-record", "%sCalls() has type %s, which does not mirror the parameters %s", name, csel.Type(), msig.Params())
				}
			}
		}
	}
	if withResets {
		want["ResetCalls"] = true
	}
	got := map[string]bool{}
	for i := 0; i < mset.Len(); i++ {
		got[mset.At(i).Obj().Name()] = true
	}
	var extra, missing []string
	for n := range got {
		if !want[n] {
			extra = append(extra, n)
		}
	}
	for n := range want {
		if !got[n] {
			missing = append(missing, n)
		}
	}
	sort.Strings(extra)
	sort.Strings(missing)
	if len(extra) > 0 || len(missing) > 0 {
		oracle := "method-set-exact"
		for _, n := range append(append([]string{}, extra...), missing...) {
			if strings.HasPrefix(n, "Reset") {
				oracle = "reset-api"
			}
		}
		bad(oracle, "method set of *%s: unexpected %v, missing %v (with-resets=%v)", p.Mock, extra, missing, withResets)
	}
	if len(vs) == 0 && !types.AssignableTo(ptr, it) {
		bad("assignable", "*%s is not assignable to %s", p.Mock, p.Iface)
	}
	return vs
}

// pairs resolves all requests; unresolved ones are a prerequisite failure (C01/C20 business).
func pairs(x *Ctx) ([]Pair, *tc.Dest) {
	d := x.Dest()
	var ps []Pair
	if d.File == nil {
		x.Note("prerequisite_failed")
		return nil, d
	}
	for _, r := range Requests(x.Case.Cfg.Args) {
		p, ok := Resolve(d, r)
		if !ok {
			x.Note("prerequisite_failed")
			continue
		}
		ps = append(ps, p)
	}
	return ps, d
}

// C02: the mock implements the interface with identical signatures.
func C02(x *Ctx) []Violation {
	if !x.Accepted() {
		return nil
	}
	ps, d := pairs(x)
	var vs []Violation
	for i := range ps {
		p := &ps[i]
		if tpLen(p.ITP) != tpLen(p.KTP) {
			// generic arity mismatch is C09's statement; signature identity cannot be evaluated
			x.Note("prerequisite_failed")
			continue
		}
		it, kt, ierr, kerr := p.instantiate(tparamsAsArgs(p.KTP), false)
		if ierr != nil || kerr != nil {
			x.Note("prerequisite_failed")
			continue
		}
		vs = append(vs, signatureChecks(d, p, it, kt, x.Case.Cfg.WithResets, "C02", "")...)
		if p.IFace.NumMethods() >= 2 || p.IFace.NumEmbeddeds() > 0 || hasVariadic(p.IFace) {
			x.NonTrivial = true
		}
	}
	return retag(vs, "C02", map[string]bool{"reset-api": true})
}

// retag drops violations that belong to another property's statement.
func retag(vs []Violation, prop string, drop map[string]bool) []Violation {
	var out []Violation
	for _, v := range vs {
		if drop[v.Oracle] {
			continue
		}
		v.Prop = prop
		out = append(out, v)
	}
	return out
}

func hasVariadic(it *types.Interface) bool {
	for i := 0; i < it.NumMethods(); i++ {
		if it.Method(i).Type().(*types.Signature).Variadic() {
			return true
		}
	}
	return false
}

// C08 (static half): Reset* methods exist exactly when -with-resets is given.
func C08Static(x *Ctx) []Violation {
	if !x.Accepted() {
		return nil
	}
	ps, d := pairs(x)
	var vs []Violation
	for i := range ps {
		p := &ps[i]
		if tpLen(p.ITP) != tpLen(p.KTP) {
			x.Note("prerequisite_failed")
			continue
		}
		it, kt, ierr, kerr := p.instantiate(tparamsAsArgs(p.KTP), false)
		if ierr != nil || kerr != nil {
			x.Note("prerequisite_failed")
			continue
		}
		for _, v := range signatureChecks(d, p, it, kt, x.Case.Cfg.WithResets, "C08", "") {
			if v.Oracle == "reset-api" {
				vs = append(vs, v)
			}
		}
		if p.IFace.NumMethods() >= 1 {
			x.NonTrivial = true
		}
	}
	return vs
}

// ---------------------------------------------------------------- C09

// subst replaces type parameters in t according to m.
func subst(t types.Type, m map[*types.TypeParam]types.Type) types.Type {
	switch t := t.(type) {
	case *types.TypeParam:
		if r, ok := m[t]; ok {
			return r
		}
		return t
	case *types.Named:
		ta := t.TypeArgs()
		if ta == nil || ta.Len() == 0 {
			return t
		}
		args := make([]types.Type, ta.Len())
		for i := range args {
			args[i] = subst(ta.At(i), m)
		}
		inst, err := types.Instantiate(nil, t.Origin(), args, false)
		if err != nil {
			return t
		}
		return inst
	case *types.Alias:
		return subst(types.Unalias(t), m)
	case *types.Pointer:
		return types.NewPointer(subst(t.Elem(), m))
	case *types.Slice:
		return types.NewSlice(subst(t.Elem(), m))
	case *types.Array:
		return types.NewArray(subst(t.Elem(), m), t.Len())
	case *types.Map:
		return types.NewMap(subst(t.Key(), m), subst(t.Elem(), m))
	case *types.Chan:
		return types.NewChan(t.Dir(), subst(t.Elem(), m))
	case *types.Tuple:
		vars := make([]*types.Var, t.Len())
		for i := range vars {
			v := t.At(i)
			vars[i] = types.NewVar(v.Pos(), v.Pkg(), v.Name(), subst(v.Type(), m))
		}
		return types.NewTuple(vars...)
	case *types.Signature:
		return types.NewSignatureType(nil, nil, nil, subst(t.Params(), m).(*types.Tuple), subst(t.Results(), m).(*types.Tuple), t.Variadic())
	case *types.Struct:
		fs := make([]*types.Var, t.NumFields())
		tags := make([]string, t.NumFields())
		for i := range fs {
			f := t.Field(i)
			fs[i] = types.NewField(f.Pos(), f.Pkg(), f.Name(), subst(f.Type(), m), f.Embedded())
			tags[i] = t.Tag(i)
		}
		return types.NewStruct(fs, tags)
	case *types.Union:
		terms := make([]*types.Term, t.Len())
		for i := range terms {
			terms[i] = types.NewTerm(t.Term(i).Tilde(), subst(t.Term(i).Type(), m))
		}
		return types.NewUnion(terms)
	case *types.Interface:
		var ms []*types.Func
		for i := 0; i < t.NumExplicitMethods(); i++ {
			f := t.ExplicitMethod(i)
			ms = append(ms, types.NewFunc(f.Pos(), f.Pkg(), f.Name(), subst(f.Type(), m).(*types.Signature)))
		}
		var es []types.Type
		for i := 0; i < t.NumEmbeddeds(); i++ {
			es = append(es, subst(t.EmbeddedType(i), m))
		}
		return types.NewInterfaceType(ms, es).Complete()
	}
	return t
}

// candidatePool builds type arguments to probe constraints with: basic types, composites and every
// non-generic named type of the world.
func candidatePool(d *tc.Dest) []types.Type {
	var pool []types.Type
	for _, k := range []types.BasicKind{types.Int, types.String, types.Float64, types.Bool, types.Int64, types.Uint8} {
		pool = append(pool, types.Typ[k])
	}
	pool = append(pool,
		types.NewSlice(types.Typ[types.Byte]), types.NewSlice(types.Typ[types.Int]), types.NewPointer(types.Typ[types.Int]),
		types.NewInterfaceType(nil, nil).Complete(), types.Universe.Lookup("error").Type(),
		types.NewStruct(nil, nil), types.NewMap(types.Typ[types.String], types.Typ[types.Int]),
		types.NewSignatureType(nil, nil, nil, nil, nil, false))
	addPkg := func(p *types.Package) {
		if p == nil {
			return
		}
		names := p.Scope().Names()
		for _, n := range names {
			tn, ok := p.Scope().Lookup(n).(*types.TypeName)
			if !ok || (!tn.Exported() && p != d.SrcPkg) {
				continue
			}
			if nt, ok := tn.Type().(*types.Named); ok && nt.TypeParams().Len() == 0 {
				if it, isI := nt.Underlying().(*types.Interface); isI && !it.IsMethodSet() {
					continue // constraint interfaces are not types
				}
				pool = append(pool, nt)
				if len(pool) > 40 {
					return
				}
			}
		}
	}
	addPkg(d.SrcPkg)
	for _, ip := range d.World.PackagePaths() {
		if ip != d.World.Case.SrcPath {
			addPkg(d.World.Pkg(ip))
		}
	}
	return pool
}

// tuples enumerates argument tuples: all of pool^n when small, otherwise a deterministic stride sample.
func tuples(pool []types.Type, n int, max int) [][]types.Type {
	total := 1
	for i := 0; i < n; i++ {
		total *= len(pool)
		if total > 1<<30 {
			total = 1 << 30
			break
		}
	}
	step := 1
	if total > max {
		step = total/max + 1
		// keep the stride co-prime with the pool size so every position varies
		for gcd(step, len(pool)) != 1 {
			step++
		}
	}
	var out [][]types.Type
	for idx := 0; idx < total && len(out) < max; idx += step {
		t := make([]types.Type, n)
		k := idx
		for i := 0; i < n; i++ {
			t[i] = pool[k%len(pool)]
			k /= len(pool)
		}
		out = append(out, t)
	}
	return out
}

func gcd(a, b int) int {
	for b != 0 {
		a, b = b, a%b
	}
	return a
}

// C09: generic interfaces keep type parameters, constraints and instances.
func C09(x *Ctx) []Violation {
	if !x.Accepted() {
		return nil
	}
	ps, d := pairs(x)
	var vs []Violation
	bad := func(oracle, format string, a ...any) {
		vs = append(vs, Violation{"C09", oracle, fmt.Sprintf(format, a...)})
	}
	for i := range ps {
		p := &ps[i]
		ni, nk := tpLen(p.ITP), tpLen(p.KTP)
		if ni != nk {
			bad("tparam-count", "%s has %d type parameters, mock %s has %d", p.Iface, ni, p.Mock, nk)
			continue
		}
		if ni == 0 {
			continue
		}
		// the mock's own type parameter names are usable: valid identifiers, pairwise distinct, none blank
		seenTP := map[string]bool{}
		for j := 0; j < nk; j++ {
			n := p.KTP.At(j).Obj().Name()
			if n == "_" || !isValidIdent(n) || seenTP[n] {
				bad("tparam-names", "mock %s declares type parameter %d as %q (blank, invalid or used twice)", p.Mock, j, n)
			}
			seenTP[n] = true
		}
		// (a) constraints identical position by position after renaming I's parameters to K's
		m := map[*types.TypeParam]types.Type{}
		for j := 0; j < ni; j++ {
			m[p.ITP.At(j)] = p.KTP.At(j)
		}
		hard := false
		for j := 0; j < ni; j++ {
			ci := subst(p.ITP.At(j).Constraint(), m)
			ck := p.KTP.At(j).Constraint()
			if !types.Identical(ci, ck) {
				bad("constraint-identical", "%s: type parameter %d (%s) has constraint %s, mock's %s has %s", p.Iface, j, p.ITP.At(j).Obj().Name(), ci, p.KTP.At(j).Obj().Name(), ck)
			}
			if it, ok := ck.Underlying().(*types.Interface); ok && !(it.NumMethods() == 0 && it.IsMethodSet()) {
				hard = true
			}
		}
		// (b) differential instantiation, (c) per accepted instance the C02 oracle
		pool := candidatePool(d)
		acc, rej := 0, 0
		for _, args := range tuples(pool, ni, 120) {
			it, kt, ierr, kerr := p.instantiate(args, true)
			if (ierr == nil) != (kerr == nil) {
				bad("instantiate-differential", "%s%v: interface instantiation error=%v, mock instantiation error=%v", p.Iface, args, ierr, kerr)
				break
			}
			if ierr != nil {
				rej++
				continue
			}
			acc++
			if acc <= 12 {
				if sv := signatureChecks(d, p, it, kt, x.Case.Cfg.WithResets, "C09", fmt.Sprintf("instance %v: ", args)); len(sv) > 0 {
					vs = append(vs, retag(sv, "C09", map[string]bool{"reset-api": true})...)
					break
				}
			}
		}
		x.Notes["instances_accepted"] += acc
		x.Notes["instances_rejected"] += rej
		if hard && acc > 0 && rej > 0 {
			x.NonTrivial = true
		}
	}
	// (d) the emitted self-check instantiation is itself valid Go
	if !x.Case.Cfg.SkipEnsure && d.File != nil {
		for _, decl := range d.File.Decls {
			if fd, isFunc := decl.(*ast.FuncDecl); isFunc && fd.Recv == nil && fd.Name.Name == "_" {
				// self-check written inside a blank generic function
				for _, te := range d.TypeErrs {
					if te.Pos >= fd.Pos() && te.Pos <= fd.End() && d.Fset.Position(te.Pos).Filename == "moq_output.go" {
						bad("self-check-valid", "the emitted self-check (generic function form) is not valid Go: %s", te.Msg)
					}
				}
				continue
			}
			gd, ok := decl.(*ast.GenDecl)
			if !ok || gd.Tok != token.VAR {
				continue
			}
			for _, te := range d.TypeErrs {
				if te.Pos >= gd.Pos() && te.Pos <= gd.End() && d.Fset.Position(te.Pos).Filename == "moq_output.go" {
					hasIndex := false
					ast.Inspect(gd, func(n ast.Node) bool {
						switch n.(type) {
						case *ast.IndexExpr, *ast.IndexListExpr:
							hasIndex = true
						}
						return true
					})
					if hasIndex {
						bad("self-check-valid", "the emitted self-check instantiation is not valid Go: %s", te.Msg)
					}
				}
			}
		}
	}
	return vs
}
