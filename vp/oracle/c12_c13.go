package oracle

import (
	"fmt"
	"go/ast"
	"go/token"
	"go/types"
	"regexp"
	"strings"
	"unicode"
	"unicode/utf8"

	"verif/vp/gen"
	"verif/vp/tc"
)

// flatNames flattens a field list into one name per parameter ("" for unnamed).
func flatNames(fl *ast.FieldList) []string {
	var out []string
	if fl == nil {
		return nil
	}
	for _, f := range fl.List {
		if len(f.Names) == 0 {
			out = append(out, "")
			continue
		}
		for _, n := range f.Names {
			out = append(out, n.Name)
		}
	}
	return out
}

// recordFields finds, in the mock's struct declaration, the field names of the call record of a method.
func recordFields(f *ast.File, mock, method string) ([]string, bool) {
	for _, ts := range typeSpecs(f) {
		if ts.Name.Name != mock {
			continue
		}
		st, ok := ts.Type.(*ast.StructType)
		if !ok {
			return nil, false
		}
		for _, fld := range st.Fields.List {
			if len(fld.Names) != 1 || fld.Names[0].Name != "calls" {
				continue
			}
			cs, ok := fld.Type.(*ast.StructType)
			if !ok {
				return nil, false
			}
			for _, mf := range cs.Fields.List {
				if len(mf.Names) != 1 || mf.Names[0].Name != method {
					continue
				}
				at, ok := mf.Type.(*ast.ArrayType)
				if !ok {
					return nil, false
				}
				rs, ok := at.Elt.(*ast.StructType)
				if !ok {
					return nil, false
				}
				return flatNames(rs.Fields), true
			}
		}
	}
	return nil, false
}

// stubResultVars returns the names declared by `var (...)` blocks inside the method body (the -stub zero values).
func stubResultVars(fd *ast.FuncDecl) []string {
	var out []string
	ast.Inspect(fd.Body, func(n ast.Node) bool {
		ds, ok := n.(*ast.DeclStmt)
		if !ok {
			return true
		}
		if gd, ok := ds.Decl.(*ast.GenDecl); ok && gd.Tok == token.VAR {
			for _, s := range gd.Specs {
				for _, n := range s.(*ast.ValueSpec).Names {
					out = append(out, n.Name)
				}
			}
		}
		return true
	})
	return out
}

var nameErrRe = regexp.MustCompile(`redeclared|is not a type|not a type|other declaration of|duplicate field`)

// C12: parameter and result identifiers never collide or capture.
func C12(x *Ctx) []Violation {
	if !x.Accepted() {
		return nil
	}
	ps, d := pairs(x)
	if d.File == nil {
		return nil
	}
	var vs []Violation
	bad := func(oracle, format string, a ...any) {
		vs = append(vs, Violation{"C12", oracle, fmt.Sprintf(format, a...)})
	}
	quals := map[string]bool{}
	for _, ii := range imports(d) {
		quals[ii.Qualifier] = true
	}
	for i := range ps {
		p := &ps[i]
		isMethod := map[string]bool{}
		for _, n := range methodNames(p.IFace) {
			isMethod[n] = true
		}
		for _, fd := range mockMethodDecls(d.File, p.Mock) {
			if !isMethod[fd.Name.Name] || fd.Body == nil {
				continue
			}
			where := fmt.Sprintf("%s.%s", p.Mock, fd.Name.Name)
			params := flatNames(fd.Type.Params)
			results := stubResultVars(fd)
			// qualifiers used inside this declaration
			usedQ := map[string]bool{}
			ast.Inspect(fd, func(n ast.Node) bool {
				if se, ok := n.(*ast.SelectorExpr); ok {
					if id, ok := se.X.(*ast.Ident); ok {
						if _, isPkg := d.Info.Uses[id].(*types.PkgName); isPkg {
							usedQ[id.Name] = true
						} else if quals[id.Name] && d.Info.Uses[id] != nil {
							// a qualifier spelled like an import but resolving to something else: captured
							if _, isVar := d.Info.Uses[id].(*types.Var); isVar && id.Name != "mock" && id.Name != "callInfo" {
								if _, isType := d.Info.Types[se]; isType && d.Info.Types[se].IsType() {
									bad("capture", "%s: qualifier %s is captured by a parameter", where, id.Name)
								}
							}
						}
					}
				}
				return true
			})
			seen := map[string]bool{}
			for k, n := range append(append([]string{}, params...), results...) {
				kind := "parameter"
				if k >= len(params) {
					kind = "result variable"
				}
				switch {
				case n == "" || n == "_":
					bad("ident-valid", "%s: %s %d has no usable name (%q)", where, kind, k, n)
				case !token.IsIdentifier(n):
					bad("ident-valid", "%s: %s name %q is not a valid identifier", where, kind, n)
				case n == "mock" || n == "callInfo":
					bad("ident-reserved", "%s: %s is named %q, which the generated body needs", where, kind, n)
				case usedQ[n]:
					bad("ident-vs-qualifier", "%s: %s %q equals an import qualifier used by this method", where, kind, n)
				}
				if seen[n] {
					bad("ident-distinct", "%s: identifier %q is used for two parameters/results", where, n)
				}
				seen[n] = true
			}
			// record fields
			if fields, ok := recordFields(d.File, p.Mock, fd.Name.Name); ok {
				if len(fields) != len(params) {
					bad("record-fields", "%s: %d parameters but %d call-record fields", where, len(params), len(fields))
				}
				fs := map[string]bool{}
				for _, f := range fields {
					if fs[f] {
						bad("record-fields-distinct", "%s: call-record field %q occurs twice (parameters %v)", where, f, params)
					}
					fs[f] = true
				}
			} else {
				x.Note("prerequisite_failed")
			}
			// semantic: identifiers the body needs resolve to what they must
			recv := ""
			if len(fd.Recv.List[0].Names) == 1 {
				recv = fd.Recv.List[0].Names[0].Name
			}
			var recvObj types.Object
			if recv != "" {
				recvObj = d.Info.Defs[fd.Recv.List[0].Names[0]]
			}
			ast.Inspect(fd.Body, func(n ast.Node) bool {
				id, ok := n.(*ast.Ident)
				if !ok {
					return true
				}
				obj := d.Info.Uses[id]
				if obj == nil {
					return true
				}
				switch id.Name {
				case "nil", "append", "panic":
					if obj.Parent() != types.Universe {
						bad("capture", "%s: %s in the generated body resolves to %s, not the predeclared identifier", where, id.Name, obj)
					}
				case recv:
					// field selectors named like the receiver (mock.calls.mock) are Sel, not resolved through Uses as vars of this scope
					if v, isVar := obj.(*types.Var); isVar && !v.IsField() && recvObj != nil && obj != recvObj {
						bad("capture", "%s: %s in the generated body does not resolve to the receiver", where, id.Name)
					}
				}
				return true
			})
			// every identifier in a type position resolves to a type or package
			checkTypeExpr := func(e ast.Expr) {
				ast.Inspect(e, func(n ast.Node) bool {
					switch n := n.(type) {
					case *ast.SelectorExpr:
						if id, ok := n.X.(*ast.Ident); ok {
							if obj := d.Info.Uses[id]; obj != nil {
								if _, isPkg := obj.(*types.PkgName); !isPkg {
									bad("capture", "%s: in type %s the qualifier %s resolves to %s", where, exprString(n), id.Name, obj)
								}
							}
						}
						return false
					case *ast.Ident:
						if obj := d.Info.Uses[n]; obj != nil {
							if _, isType := obj.(*types.TypeName); !isType {
								bad("capture", "%s: type name %s resolves to %s", where, n.Name, obj)
							}
						}
					}
					return true
				})
			}
			ast.Inspect(fd.Body, func(n ast.Node) bool {
				switch n := n.(type) {
				case *ast.CompositeLit:
					if st, ok := n.Type.(*ast.StructType); ok {
						for _, f := range st.Fields.List {
							checkTypeExpr(f.Type)
						}
					}
				case *ast.ValueSpec:
					if n.Type != nil {
						checkTypeExpr(n.Type)
					}
				}
				return true
			})
			// name-caused type errors inside this method
			for _, te := range d.TypeErrs {
				if te.Pos >= fd.Pos() && te.Pos <= fd.End() && d.Fset.Position(te.Pos).Filename == "moq_output.go" && nameErrRe.MatchString(te.Msg) {
					bad("name-error", "%s: %s", where, te.Msg)
					break
				}
			}
			// non-trivial classes
			classes := map[string]bool{}
			for _, n := range append(append([]string{}, params...), results...) {
				switch {
				case strings.HasSuffix(n, "MoqParam") || strings.Contains(n, "MoqParam"):
					classes["suffixed"] = true
				case len(n) > 1 && unicode.IsDigit(rune(n[len(n)-1])):
					classes["numbered"] = true
				case quals[n]:
					classes["package-named"] = true
				default:
					classes["plain"] = true
				}
			}
			if classes["suffixed"] || classes["numbered"] || classes["package-named"] {
				x.NonTrivial = true
			}
		}
		// errors in the struct declaration of the mock caused by names
		for _, ts := range typeSpecs(d.File) {
			if ts.Name.Name != p.Mock {
				continue
			}
			for _, te := range d.TypeErrs {
				if te.Pos >= ts.Pos() && te.Pos <= ts.End() && d.Fset.Position(te.Pos).Filename == "moq_output.go" && nameErrRe.MatchString(te.Msg) {
					bad("name-error", "%s struct: %s", p.Mock, te.Msg)
					break
				}
			}
		}
	}
	return dedup(vs)
}

func dedup(vs []Violation) []Violation {
	seen := map[string]bool{}
	var out []Violation
	for _, v := range vs {
		k := v.Oracle + "\x00" + v.Msg
		if !seen[k] {
			seen[k] = true
			out = append(out, v)
		}
	}
	return out
}

func exprString(e ast.Expr) string {
	switch e := e.(type) {
	case *ast.Ident:
		return e.Name
	case *ast.SelectorExpr:
		return exprString(e.X) + "." + e.Sel.Name
	}
	return fmt.Sprintf("%T", e)
}

// ---------------------------------------------------------------- C13

// ExportedModel is the independent statement of the record-field rule.
func ExportedModel(name string) string {
	up := strings.ToUpper(name)
	for _, i := range gen.Initialisms {
		if up == i {
			return i
		}
	}
	return capit(name)
}

// first letter (rune, not byte) lower-/upper-cased
func decap(s string) string {
	r, n := utf8.DecodeRuneInString(s)
	return string(unicode.ToLower(r)) + s[n:]
}
func capit(s string) string {
	r, n := utf8.DecodeRuneInString(s)
	return string(unicode.ToUpper(r)) + s[n:]
}

// predictName is the independent model of type-derived parameter names. alts lists the acceptable names;
// asserted=false means the statement/pinned behaviour leaves the name open (only validity is required).
func predictName(t types.Type) (alts []string, asserted bool) {
	nested := func(t types.Type) ([]string, bool) {
		if b, ok := t.(*types.Basic); ok {
			if b.Kind() == types.UnsafePointer {
				return nil, false
			}
			return []string{decap(b.Name())}, true
		}
		return predictName(t)
	}
	switch t := t.(type) {
	case *types.Named:
		if t.Obj().Name() == "error" && t.Obj().Pkg() == nil {
			return []string{"err"}, true
		}
		n := decap(t.Obj().Name())
		if n == t.Obj().Name() {
			n += "MoqParam"
		}
		return []string{n}, true
	case *types.Basic:
		switch {
		case t.Info()&types.IsString != 0:
			return []string{"s"}, true
		case t.Info()&types.IsBoolean != 0:
			return []string{"b"}, true
		case t.Info()&types.IsFloat != 0:
			return []string{"f"}, true
		case t.Info()&types.IsUnsigned != 0:
			if t.Kind() == types.Uintptr {
				return nil, false
			}
			return []string{"n", "v"}, true // statement: "n for integers"; pinned golden (shadowtypes): v
		case t.Info()&types.IsInteger != 0:
			return []string{"n"}, true
		}
		return nil, false
	case *types.Pointer:
		return predictName(t.Elem())
	case *types.Slice:
		e, ok := nested(t.Elem())
		if !ok {
			return nil, false
		}
		return suffixAll(e, "s"), true
	case *types.Array:
		e, ok := nested(t.Elem())
		if !ok {
			return nil, false
		}
		return suffixAll(e, "s"), true
	case *types.Map:
		k, ok1 := nested(t.Key())
		v, ok2 := nested(t.Elem())
		if !ok1 || !ok2 {
			return nil, false
		}
		var out []string
		for _, a := range k {
			for _, b := range v {
				out = append(out, a+"To"+capit(b))
			}
		}
		return out, true
	case *types.Chan:
		e, ok := nested(t.Elem())
		if !ok {
			return nil, false
		}
		return suffixAll(e, "Ch"), true
	case *types.Signature:
		return []string{"fn"}, true
	case *types.Struct:
		return []string{"val"}, true
	case *types.Interface:
		return []string{"ifaceVal"}, true
	}
	return nil, false // aliases, type parameters, unions: left open
}

func suffixAll(ss []string, suf string) []string {
	out := make([]string, len(ss))
	for i, s := range ss {
		out[i] = s + suf
	}
	return out
}

var reservedGenerated = func() map[string]bool {
	m := map[string]bool{"mock": true, "callInfo": true}
	for k := range gen.Predeclared {
		m[k] = true
	}
	return m
}()

// C13: call-record field names follow the parameter names predictably.
func C13(x *Ctx) []Violation {
	if !x.Accepted() {
		return nil
	}
	ps, d := pairs(x)
	if d.File == nil {
		return nil
	}
	var vs []Violation
	bad := func(oracle, format string, a ...any) {
		vs = append(vs, Violation{"C13", oracle, fmt.Sprintf(format, a...)})
	}
	// Everything a parameter name can collide with on the import side: the final qualifiers, but also the
	// package names and source aliases of the imported packages and every alias conflict resolution could
	// have used on the way (a package may be registered under its plain name first and renamed later, after
	// a parameter was already renamed because of it).
	quals := map[string]bool{}
	srcAliases := sourceAliases(x.World)
	for _, ii := range imports(d) {
		quals[ii.Qualifier] = true
		if ii.Obj != nil {
			quals[ii.Obj.Imported().Name()] = true
		}
		for a := range srcAliases[ii.Path] {
			quals[a] = true
		}
		for _, sname := range suffixNames(ii.Path) {
			quals[sname] = true
		}
	}
	for i := range ps {
		p := &ps[i]
		// world-side view of the interface (names as written by the user)
		wsrc := x.World.Src()
		wtn, _ := wsrc.Scope().Lookup(p.Iface).(*types.TypeName)
		if wtn == nil {
			continue
		}
		wit, ok := wtn.Type().Underlying().(*types.Interface)
		if !ok {
			continue
		}
		wit = wit.Complete()
		decls := map[string]*ast.FuncDecl{}
		for _, fd := range mockMethodDecls(d.File, p.Mock) {
			decls[fd.Name.Name] = fd
		}
		for mi := 0; mi < wit.NumMethods(); mi++ {
			m := wit.Method(mi)
			sig := m.Type().(*types.Signature)
			fd := decls[m.Name()]
			if fd == nil {
				x.Note("prerequisite_failed")
				continue
			}
			got := flatNames(fd.Type.Params)
			fields, okf := recordFields(d.File, p.Mock, m.Name())
			if len(got) != sig.Params().Len() || !okf || len(fields) != len(got) {
				x.Note("prerequisite_failed")
				continue
			}
			funcField := funcFieldParamNames(d.File, p.Mock, m.Name())
			// predicted names of every parameter and result (to decide collision-freeness)
			type pred struct {
				alts     []string
				asserted bool
				user     bool
			}
			preds := make([]pred, sig.Params().Len())
			stems := map[string]int{}
			for j := 0; j < sig.Params().Len(); j++ {
				v := sig.Params().At(j)
				if v.Name() != "" && v.Name() != "_" {
					preds[j] = pred{alts: []string{v.Name()}, asserted: true, user: true}
				} else {
					a, ok := predictName(v.Type())
					preds[j] = pred{alts: a, asserted: ok}
				}
				for _, a := range preds[j].alts {
					stems[a]++
					// a name equal to a qualifier becomes <name>MoqParam: that spelling is taken as well
					if quals[a] {
						stems[a+"MoqParam"]++
					}
				}
			}
			openResult := false
			for j := 0; j < sig.Results().Len(); j++ {
				v := sig.Results().At(j)
				if v.Name() != "" && v.Name() != "_" {
					stems[v.Name()+"Out"]++
				} else {
					a, ok := predictName(v.Type())
					if !ok {
						openResult = true
					}
					for _, s := range a {
						stems[s+"Out"]++
					}
				}
			}
			// identifiers the method itself must resolve: a parameter spelled like one of them collides with it
			// (type names written unqualified in the destination package, type parameters, the body's identifiers)
			typeNames := map[string]bool{"mock": true, "callInfo": true, "nil": true, "append": true, "panic": true}
			destPath, _ := tc.DestPath(x.Case)
			unqualifiedNames(sig.Params(), destPath, typeNames, map[types.Type]bool{})
			unqualifiedNames(sig.Results(), destPath, typeNames, map[types.Type]bool{})
			for j := 0; j < tpLen(p.KTP); j++ {
				typeNames[p.KTP.At(j).Obj().Name()] = true
			}
			where := fmt.Sprintf("%s.%s", p.Iface, m.Name())
			for j := range preds {
				pr := preds[j]
				if got[j] == "" || !token.IsIdentifier(got[j]) {
					bad("name-valid", "%s: parameter %d is named %q", where, j, got[j])
					continue
				}
				// field rule: always checkable against the *actual* parameter name
				if want := ExportedModel(got[j]); fields[j] != want {
					bad("field-rule", "%s: parameter %q has call-record field %q, the rule gives %q", where, got[j], fields[j], want)
				}
				if funcField != nil && j < len(funcField) && funcField[j] != got[j] {
					bad("func-field-name", "%s: method parameter %q but %sFunc parameter %q", where, got[j], m.Name(), funcField[j])
				}
				if !pr.asserted {
					x.Note("name_left_open")
					continue
				}
				// collision-free context?
				collision := openResult
				for _, a := range pr.alts {
					if stems[a] > 1 || quals[a] || reservedGenerated[a] || gen.IsKeyword(a) || typeNames[a] {
						collision = true
					}
					// two parameters whose record fields would be equal (id / Id) collide as well
					for k := range preds {
						if k == j {
							continue
						}
						for _, b := range preds[k].alts {
							if b != "" && a != "" && ExportedModel(b) == ExportedModel(a) {
								collision = true
							}
						}
					}
				}
				// two OTHER parameters whose record fields collide get numbers appended (Key, Key -> Key, Key2): a
				// parameter whose own field is such a numbered name (key2) is renamed in turn
				fieldCount := map[string]int{}
				for k := range preds {
					if k == j {
						continue
					}
					seenF := map[string]bool{}
					for _, b := range preds[k].alts {
						if f := ExportedModel(b); b != "" && !seenF[f] {
							seenF[f] = true
							fieldCount[f]++
						}
					}
				}
				for _, a := range pr.alts {
					fa := ExportedModel(a)
					allDigits := fa[len(strings.TrimRight(fa, "0123456789")):]
					// every split of the trailing digits (float642 = float64 + 2 as well as float + 642)
					for n := 1; n <= len(allDigits); n++ {
						digits := allDigits[len(allDigits)-n:]
						for k := range preds {
							if k == j {
								continue
							}
							for _, b := range preds[k].alts {
								// b is in a colliding group and b+digits would get our field
								if b != "" && fieldCount[ExportedModel(b)] > 1 && ExportedModel(b+digits) == fa {
									collision = true
								}
							}
						}
					}
				}
				// an unasserted neighbour may have produced any name, including ours
				for k := range preds {
					if k != j && !preds[k].asserted {
						collision = true
					}
				}
				if collision {
					x.Note("collision_context")
					continue
				}
				okName := false
				for _, a := range pr.alts {
					if got[j] == a {
						okName = true
					}
				}
				if !okName {
					if pr.user {
						bad("user-name-kept", "%s: parameter %d is written %q in the interface and collides with nothing, but the mock names it %q", where, j, pr.alts[0], got[j])
					} else {
						bad("type-derived-name", "%s: unnamed parameter %d of type %s should be named %v, got %q", where, j, sig.Params().At(j).Type(), pr.alts, got[j])
					}
				}
				x.Note("names_asserted")
				if pr.user {
					if ExportedModel(got[j]) != capit(got[j]) {
						x.NonTrivial = true
					}
				} else if _, basicT := sig.Params().At(j).Type().(*types.Basic); !basicT {
					x.NonTrivial = true
				}
			}
		}
	}
	return dedup(vs)
}

// funcFieldParamNames returns the parameter names of the MFunc field's func type.
func funcFieldParamNames(f *ast.File, mock, method string) []string {
	for _, ts := range typeSpecs(f) {
		if ts.Name.Name != mock {
			continue
		}
		st, ok := ts.Type.(*ast.StructType)
		if !ok {
			return nil
		}
		for _, fld := range st.Fields.List {
			if len(fld.Names) == 1 && fld.Names[0].Name == method+"Func" {
				if ft, ok := fld.Type.(*ast.FuncType); ok {
					return flatNames(ft.Params)
				}
			}
		}
	}
	return nil
}

// unqualifiedNames collects the names of the types mentioned by t that are written without a package qualifier
// in the destination package (predeclared types, type parameters, types of the destination package itself).
func unqualifiedNames(t types.Type, destPath string, names map[string]bool, seen map[types.Type]bool) {
	if t == nil || seen[t] {
		return
	}
	seen[t] = true
	obj := func(o *types.TypeName, ta *types.TypeList) {
		if o.Pkg() == nil || o.Pkg().Path() == destPath {
			names[o.Name()] = true
		}
		for i := 0; i < ta.Len(); i++ {
			unqualifiedNames(ta.At(i), destPath, names, seen)
		}
	}
	switch t := t.(type) {
	case *types.Basic:
		names[t.Name()] = true
	case *types.TypeParam:
		names[t.Obj().Name()] = true
	case *types.Named:
		obj(t.Obj(), t.TypeArgs())
	case *types.Alias:
		obj(t.Obj(), t.TypeArgs())
	case *types.Pointer:
		unqualifiedNames(t.Elem(), destPath, names, seen)
	case *types.Slice:
		unqualifiedNames(t.Elem(), destPath, names, seen)
	case *types.Array:
		unqualifiedNames(t.Elem(), destPath, names, seen)
	case *types.Chan:
		unqualifiedNames(t.Elem(), destPath, names, seen)
	case *types.Map:
		unqualifiedNames(t.Key(), destPath, names, seen)
		unqualifiedNames(t.Elem(), destPath, names, seen)
	case *types.Tuple:
		for i := 0; i < t.Len(); i++ {
			unqualifiedNames(t.At(i).Type(), destPath, names, seen)
		}
	case *types.Signature:
		unqualifiedNames(t.Params(), destPath, names, seen)
		unqualifiedNames(t.Results(), destPath, names, seen)
	case *types.Struct:
		for i := 0; i < t.NumFields(); i++ {
			unqualifiedNames(t.Field(i).Type(), destPath, names, seen)
		}
	case *types.Interface:
		for i := 0; i < t.NumExplicitMethods(); i++ {
			unqualifiedNames(t.ExplicitMethod(i).Type(), destPath, names, seen)
		}
		for i := 0; i < t.NumEmbeddeds(); i++ {
			unqualifiedNames(t.EmbeddedType(i), destPath, names, seen)
		}
	case *types.Union:
		for i := 0; i < t.Len(); i++ {
			unqualifiedNames(t.Term(i).Type(), destPath, names, seen)
		}
	}
}
