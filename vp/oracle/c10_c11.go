package oracle

import (
	"fmt"
	"go/ast"
	"go/types"
	"regexp"
	"strconv"
	"strings"

	"verif/vp/gen"
	"verif/vp/tc"
)

// srcUses walks the output and classifies uses of source-package objects.
func srcUses(d *tc.Dest) (qualified, bare int) {
	srcPath := d.World.Case.SrcPath
	selOf := map[*ast.Ident]bool{}
	ast.Inspect(d.File, func(n ast.Node) bool {
		se, ok := n.(*ast.SelectorExpr)
		if !ok {
			return true
		}
		if id, ok := se.X.(*ast.Ident); ok {
			if pn, ok := d.Info.Uses[id].(*types.PkgName); ok {
				selOf[se.Sel] = true
				if pn.Imported().Path() == srcPath {
					qualified++
				}
			}
		}
		return true
	})
	ast.Inspect(d.File, func(n ast.Node) bool {
		id, ok := n.(*ast.Ident)
		if !ok || selOf[id] {
			return true
		}
		obj := d.Info.Uses[id]
		if obj == nil || obj.Pkg() == nil {
			return true
		}
		if obj.Pkg().Path() == srcPath && obj.Parent() == obj.Pkg().Scope() {
			bare++
		}
		return true
	})
	return
}

// mentionsPkg reports whether type t (walked without unaliasing) mentions a package-level type of pkg path.
func mentionsPkg(t types.Type, path string, seen map[types.Type]bool) bool {
	if t == nil || seen[t] {
		return false
	}
	seen[t] = true
	switch t := t.(type) {
	case *types.Named:
		if t.Obj().Pkg() != nil && t.Obj().Pkg().Path() == path {
			return true
		}
		if ta := t.TypeArgs(); ta != nil {
			for i := 0; i < ta.Len(); i++ {
				if mentionsPkg(ta.At(i), path, seen) {
					return true
				}
			}
		}
	case *types.Alias:
		if t.Obj().Pkg() != nil && t.Obj().Pkg().Path() == path {
			return true
		}
		if ta := t.TypeArgs(); ta != nil {
			for i := 0; i < ta.Len(); i++ {
				if mentionsPkg(ta.At(i), path, seen) {
					return true
				}
			}
		}
		if t.Obj().Pkg() == nil { // any
			return false
		}
	case *types.Pointer:
		return mentionsPkg(t.Elem(), path, seen)
	case *types.Slice:
		return mentionsPkg(t.Elem(), path, seen)
	case *types.Array:
		return mentionsPkg(t.Elem(), path, seen)
	case *types.Chan:
		return mentionsPkg(t.Elem(), path, seen)
	case *types.Map:
		return mentionsPkg(t.Key(), path, seen) || mentionsPkg(t.Elem(), path, seen)
	case *types.Tuple:
		for i := 0; i < t.Len(); i++ {
			if mentionsPkg(t.At(i).Type(), path, seen) {
				return true
			}
		}
	case *types.Signature:
		return mentionsPkg(t.Params(), path, seen) || mentionsPkg(t.Results(), path, seen)
	case *types.Struct:
		for i := 0; i < t.NumFields(); i++ {
			if mentionsPkg(t.Field(i).Type(), path, seen) {
				return true
			}
		}
	case *types.Interface:
		for i := 0; i < t.NumExplicitMethods(); i++ {
			if mentionsPkg(t.ExplicitMethod(i).Type(), path, seen) {
				return true
			}
		}
		for i := 0; i < t.NumEmbeddeds(); i++ {
			if mentionsPkg(t.EmbeddedType(i), path, seen) {
				return true
			}
		}
	case *types.Union:
		for i := 0; i < t.Len(); i++ {
			if mentionsPkg(t.Term(i).Type(), path, seen) {
				return true
			}
		}
	}
	return false
}

// ifaceMentionsSrc: do the method signatures (complete method set) or the type-parameter constraints of
// the requested interface mention a type of the source package? Computed on the *world's* types.
func ifaceMentionsSrc(w *tc.World, name string) (mentions, known bool) {
	src := w.Src()
	if src == nil {
		return false, false
	}
	tn, _ := src.Scope().Lookup(name).(*types.TypeName)
	if tn == nil {
		return false, false
	}
	it, ok := tn.Type().Underlying().(*types.Interface)
	if !ok {
		return false, false
	}
	path := src.Path()
	it = it.Complete()
	for i := 0; i < it.NumMethods(); i++ {
		if mentionsPkg(it.Method(i).Type(), path, map[types.Type]bool{}) {
			return true, true
		}
	}
	if n, ok := tn.Type().(*types.Named); ok {
		for i := 0; i < n.TypeParams().Len(); i++ {
			if mentionsPkg(n.TypeParams().At(i).Constraint(), path, map[types.Type]bool{}) {
				return true, true
			}
		}
	}
	return false, true
}

// C10: type references respect the package the mock is generated into.
func C10(x *Ctx) []Violation {
	if !x.Accepted() {
		return nil
	}
	d := x.Dest()
	if d.File == nil || d.Info == nil {
		x.Note("prerequisite_failed")
		return nil
	}
	c := x.Case
	var vs []Violation
	bad := func(oracle, format string, a ...any) {
		vs = append(vs, Violation{"C10", oracle, fmt.Sprintf(format, a...)})
	}
	srcImported := false
	for _, ii := range imports(d) {
		if ii.Path == c.SrcPath {
			srcImported = true
		}
	}
	qualified, bare := srcUses(d)
	x.Extra["src_uses"] = map[string]int{"qualified": qualified, "bare": bare}
	if d.InPlace {
		if srcImported {
			bad("no-self-import", "generated into package %s itself (dest=%s, -pkg %q) but the file imports its own package %q", c.SrcName, c.Cfg.DestKind, c.Cfg.Pkg, c.SrcPath)
		}
		if qualified > 0 {
			bad("unqualified-in-place", "generated into the source package but %d references to its types are package-qualified", qualified)
		}
	} else {
		if bare > 0 {
			bad("qualified-elsewhere", "generated into another package but %d references to source-package types are unqualified", bare)
		}
		if !c.Cfg.SkipEnsure {
			if !srcImported {
				bad("import-source", "generated into package %q with the self-check line but the source package %q is not imported", c.Cfg.Pkg, c.SrcPath)
			}
		} else {
			mentions, allKnown := false, true
			for _, r := range Requests(c.Cfg.Args) {
				m, known := ifaceMentionsSrc(x.World, r.Iface)
				if !known {
					allKnown = false
				}
				mentions = mentions || m
			}
			if allKnown && mentions != srcImported {
				bad("import-iff-mentioned", "-skip-ensure into package %q: signatures mention source-package types = %v, but source package imported = %v", c.Cfg.Pkg, mentions, srcImported)
			}
			x.Extra["mentions_src"] = mentions
			if allKnown && !mentions {
				x.NonTrivial = true
			}
		}
	}
	// every identifier of the output resolves in the destination package: a type written without (or with a
	// wrong) qualifier because moq misjudged where the file will live shows up as an unresolved reference
	for _, te := range d.TypeErrs {
		if strings.Contains(te.Msg, "undefined: ") || strings.Contains(te.Msg, "not declared by package") || strings.Contains(te.Msg, "undeclared name") {
			bad("resolves-in-destination", "in destination package %s (dest=%s, -pkg %q): %s", d.Path, c.Cfg.DestKind, c.Cfg.Pkg, te.Msg)
			break
		}
	}
	if c.Cfg.DestKind != "implicit" {
		x.NonTrivial = true
	}
	return vs
}

var sanitiser = gen.Sanitiser

func suffixNames(path string) []string { return gen.SuffixNames(path) }

// sourceAliases collects, from the world's own source files, path -> set of aliases (not . or _).
func sourceAliases(w *tc.World) map[string]map[string]bool {
	out := map[string]map[string]bool{}
	for _, f := range w.Files[w.Case.SrcPath] {
		for _, spec := range f.Imports {
			if spec.Name == nil || spec.Name.Name == "." || spec.Name.Name == "_" {
				continue
			}
			p, _ := strconv.Unquote(spec.Path.Value)
			if out[p] == nil {
				out[p] = map[string]bool{}
			}
			out[p][spec.Name.Name] = true
		}
	}
	return out
}

var importLineRe = regexp.MustCompile(`(?m)^[ \t]*(?:([^ \t"]+)[ \t]+)?"([^"]+)"[ \t]*$`)

// importBlock cuts the text of the first import ( ... ) block.
func importBlock(src string) string {
	i := strings.Index(src, "import (")
	if i < 0 {
		return ""
	}
	j := strings.Index(src[i:], "\n)")
	if j < 0 {
		return src[i:]
	}
	return src[i+len("import (") : i+j]
}

// C11: the import block is exact, canonical and conflict-free.
func C11(x *Ctx) []Violation {
	if !x.Accepted() {
		return nil
	}
	d := x.Dest()
	var vs []Violation
	bad := func(oracle, format string, a ...any) {
		vs = append(vs, Violation{"C11", oracle, fmt.Sprintf(format, a...)})
	}
	if d.ParseErr != nil {
		// the file does not parse (seen through -fmt noop): judge the import block lexically
		for _, m := range importLineRe.FindAllStringSubmatch(importBlock(string(x.Judged)), -1) {
			if q := m[1]; q != "" && q != "." && q != "_" && !isValidIdent(q) {
				bad("qualifier-valid", "package %q is imported under the qualifier %q, which is not a valid identifier", m[2], q)
			}
		}
		if len(vs) == 0 {
			x.Note("prerequisite_failed")
		}
		return vs
	}
	if d.File == nil || d.Info == nil {
		x.Note("prerequisite_failed")
		return nil
	}
	imps := imports(d)
	seenPath := map[string]bool{}
	seenQual := map[string]string{}
	used := map[*types.PkgName]bool{}
	for _, obj := range d.Info.Uses {
		if pn, ok := obj.(*types.PkgName); ok {
			used[pn] = true
		}
	}
	hasSync := false
	for _, ii := range imps {
		if seenPath[ii.Path] {
			bad("import-once", "package %q is imported more than once", ii.Path)
		}
		seenPath[ii.Path] = true
		if ii.Name == "." || ii.Name == "_" {
			bad("no-dot-blank", "package %q is imported as %q", ii.Path, ii.Name)
			continue
		}
		if strings.Contains(ii.Path, "/vendor/") || strings.HasPrefix(ii.Path, "vendor/") {
			bad("vendor-stripped", "import path %q still carries a vendor directory prefix", ii.Path)
		}
		if !isValidIdent(ii.Qualifier) {
			bad("qualifier-valid", "package %q is imported under the qualifier %q, which is not a valid identifier", ii.Path, ii.Qualifier)
		}
		if other, dup := seenQual[ii.Qualifier]; dup {
			bad("qualifier-unique", "packages %q and %q are both reachable as %q", other, ii.Path, ii.Qualifier)
		}
		seenQual[ii.Qualifier] = ii.Path
		if ii.Obj != nil && !used[ii.Obj] {
			bad("import-used", "package %q is imported (as %s) but never referred to", ii.Path, ii.Qualifier)
		}
		if ii.Path == "sync" {
			hasSync = true
		}
	}
	// unresolved package qualifiers = missing imports
	ast.Inspect(d.File, func(n ast.Node) bool {
		se, ok := n.(*ast.SelectorExpr)
		if !ok {
			return true
		}
		if id, ok := se.X.(*ast.Ident); ok {
			if d.Info.Uses[id] == nil && d.Info.Defs[id] == nil {
				bad("import-missing", "qualifier %q in %s.%s does not resolve to any import or variable", id.Name, id.Name, se.Sel.Name)
				return false
			}
		}
		return true
	})
	// sync exactly when some mock has a method
	src := x.World.Src()
	someMethod, allKnown := false, true
	for _, r := range Requests(x.Case.Cfg.Args) {
		tn, _ := src.Scope().Lookup(r.Iface).(*types.TypeName)
		if tn == nil {
			allKnown = false
			continue
		}
		if it, ok := tn.Type().Underlying().(*types.Interface); ok {
			if it.Complete().NumMethods() > 0 {
				someMethod = true
			}
		} else {
			allKnown = false
		}
	}
	// every mock with a method needs sync for its locks; without any method sync may only be there because a
	// signature or constraint mentions one of its types (then import-used holds), never on its own
	if allKnown && someMethod && !hasSync {
		bad("sync-iff-method", "some mock has a method, but sync is not imported")
	}
	// a source alias is kept when it conflicts with nothing
	aliases := sourceAliases(x.World)
	for _, ii := range imps {
		as := aliases[ii.Path]
		if len(as) != 1 {
			continue
		}
		var A string
		for a := range as {
			A = a
		}
		// the receiver and the record variable of every generated method: such an alias cannot be kept (F-Z)
		conflict := A == "mock" || A == "callInfo"
		for _, other := range imps {
			if other.Path == ii.Path {
				continue
			}
			if other.Obj != nil && other.Obj.Imported().Name() == A {
				conflict = true
			}
			if aliases[other.Path][A] {
				conflict = true
			}
			for _, s := range suffixNames(other.Path) {
				if s == A {
					conflict = true
				}
			}
		}
		// the package's own name elsewhere in the import set is handled above; a qualifier that the
		// destination package declares itself is outside the generator's preconditions
		if conflict {
			x.Note("alias_in_conflict_context")
			continue
		}
		x.Note("alias_kept_asserted")
		if ii.Qualifier != A {
			bad("alias-kept", "the source imports %q as %q (and %q conflicts with nothing), but the output imports it as %q", ii.Path, A, A, ii.Qualifier)
		}
	}
	names := map[string]int{}
	for _, ii := range imps {
		if ii.Obj != nil {
			names[ii.Obj.Imported().Name()]++
			names["~"+strings.ToLower(sanitiser.Replace(ii.Path[strings.LastIndex(ii.Path, "/")+1:]))]++
		}
	}
	for _, c := range names {
		if c > 1 {
			x.NonTrivial = true
		}
	}
	for _, ii := range imps {
		if len(aliases[ii.Path]) > 0 {
			x.NonTrivial = true
		}
	}
	return vs
}
