package oracle

import (
	"go/ast"
	"go/token"
	"go/types"
	"strconv"
	"strings"

	"verif/vp/tc"
)

// Req is one requested mock: interface name and mock type name.
type Req struct {
	Iface string
	Mock  string
}

// Requests parses the interface arguments the way the CLI documents them.
func Requests(args []string) []Req {
	var rs []Req
	for _, a := range args {
		parts := strings.SplitN(a, ":", 2)
		r := Req{Iface: parts[0], Mock: parts[0] + "Mock"}
		if len(parts) == 2 {
			r.Mock = parts[1]
		}
		rs = append(rs, r)
	}
	return rs
}

// Pair is a requested mock resolved in the type-checked destination.
type Pair struct {
	Req
	IObj   *types.TypeName  // interface object in the source package (as seen from the destination)
	KObj   *types.TypeName  // mock type
	IFace  *types.Interface // complete interface (for generic I: of the generic type, mentioning I's type parameters)
	ITP    *types.TypeParamList
	KTP    *types.TypeParamList
	KNamed *types.Named
}

// Resolve looks the requested names up. Missing objects are reported by ok=false.
func Resolve(d *tc.Dest, r Req) (p Pair, ok bool) {
	p.Req = r
	if d.Pkg == nil || d.SrcPkg == nil {
		return p, false
	}
	io, _ := d.SrcPkg.Scope().Lookup(r.Iface).(*types.TypeName)
	ko, _ := d.Pkg.Scope().Lookup(r.Mock).(*types.TypeName)
	if io == nil || ko == nil {
		p.IObj, p.KObj = io, ko
		return p, false
	}
	p.IObj, p.KObj = io, ko
	it, isIface := io.Type().Underlying().(*types.Interface)
	if !isIface {
		return p, false
	}
	p.IFace = it.Complete()
	if n, ok := types.Unalias(io.Type()).(*types.Named); ok && n.Obj() == io {
		p.ITP = n.TypeParams()
	}
	if al, ok := io.Type().(*types.Alias); ok {
		p.ITP = al.TypeParams()
	}
	kn, isNamed := ko.Type().(*types.Named)
	if !isNamed {
		return p, false
	}
	p.KNamed = kn
	p.KTP = kn.TypeParams()
	return p, true
}

func tpLen(l *types.TypeParamList) int {
	if l == nil {
		return 0
	}
	return l.Len()
}

// instantiate I and K with the same argument list (nil args: both must be non-generic).
func (p *Pair) instantiate(args []types.Type, validate bool) (it types.Type, kt types.Type, ierr, kerr error) {
	if len(args) == 0 {
		return p.IObj.Type(), p.KObj.Type(), nil, nil
	}
	ctxt := types.NewContext()
	it, ierr = types.Instantiate(ctxt, p.IObj.Type(), args, validate)
	kt, kerr = types.Instantiate(ctxt, p.KObj.Type(), args, validate)
	return
}

// tparamsAsArgs returns the type parameters of the mock as type arguments (identity instantiation).
func tparamsAsArgs(l *types.TypeParamList) []types.Type {
	var as []types.Type
	for i := 0; i < tpLen(l); i++ {
		as = append(as, l.At(i))
	}
	return as
}

func methodNames(it *types.Interface) []string {
	var s []string
	for i := 0; i < it.NumMethods(); i++ {
		s = append(s, it.Method(i).Name())
	}
	return s
}

// importInfo describes one import spec of the output.
type importInfo struct {
	Path      string
	Name      string // explicit name ("" if none)
	Qualifier string // effective qualifier
	Obj       *types.PkgName
	Spec      *ast.ImportSpec
}

func imports(d *tc.Dest) []importInfo {
	var out []importInfo
	if d.File == nil {
		return nil
	}
	for _, spec := range d.File.Imports {
		p, _ := strconv.Unquote(spec.Path.Value)
		ii := importInfo{Path: p, Spec: spec}
		if spec.Name != nil {
			ii.Name = spec.Name.Name
			if o, ok := d.Info.Defs[spec.Name].(*types.PkgName); ok {
				ii.Obj = o
			}
		} else if d.Info != nil {
			if o, ok := d.Info.Implicits[spec].(*types.PkgName); ok {
				ii.Obj = o
			}
		}
		ii.Qualifier = ii.Name
		if ii.Qualifier == "" && ii.Obj != nil {
			ii.Qualifier = ii.Obj.Name()
		}
		if ii.Qualifier == "" {
			ii.Qualifier = p[strings.LastIndex(p, "/")+1:]
		}
		out = append(out, ii)
	}
	return out
}

func isValidIdent(s string) bool { return token.IsIdentifier(s) }

// mockMethodDecls returns the FuncDecls whose receiver is *mockName (or *mockName[...]).
func mockMethodDecls(f *ast.File, mock string) []*ast.FuncDecl {
	var out []*ast.FuncDecl
	for _, decl := range f.Decls {
		fd, ok := decl.(*ast.FuncDecl)
		if !ok || fd.Recv == nil || len(fd.Recv.List) != 1 {
			continue
		}
		t := fd.Recv.List[0].Type
		if st, ok := t.(*ast.StarExpr); ok {
			t = st.X
		}
		switch x := t.(type) {
		case *ast.IndexExpr:
			t = x.X
		case *ast.IndexListExpr:
			t = x.X
		}
		if id, ok := t.(*ast.Ident); ok && id.Name == mock {
			out = append(out, fd)
		}
	}
	return out
}

// typeSpecs returns the top-level type declarations of a file in order.
func typeSpecs(f *ast.File) []*ast.TypeSpec {
	var out []*ast.TypeSpec
	for _, decl := range f.Decls {
		if gd, ok := decl.(*ast.GenDecl); ok && gd.Tok == token.TYPE {
			for _, s := range gd.Specs {
				out = append(out, s.(*ast.TypeSpec))
			}
		}
	}
	return out
}
