// Package oracle holds the executable statements of the properties: pure
// judgements over (world, command line, what moq did).
package oracle

import (
	"fmt"
	"os"
	"path/filepath"
	"regexp"
	"strings"

	"verif/vp/core"
	"verif/vp/tc"
)

// Violation is one failed judgement.
type Violation struct {
	Prop   string `json:"property"`
	Oracle string `json:"oracle"`
	Msg    string `json:"msg"`
}

func (v Violation) String() string { return fmt.Sprintf("%s/%s: %s", v.Prop, v.Oracle, v.Msg) }

// Ctx is everything an oracle may look at for one case.
type Ctx struct {
	Env   core.Env
	Case  *core.Case
	World *tc.World
	Dir   string // materialised world
	Res   *core.Result
	dest  *tc.Dest
	// Judged is the text the source-level oracles judge: moq's output, or (rejected-by-formatter rule)
	// the -fmt noop output of the same case.
	Judged     []byte
	ViaNoop    bool
	NonTrivial bool
	Notes      map[string]int // counters the oracle wants reported
	Extra      map[string]any // sample details
	runCounter int
}

func NewCtx(env core.Env, c *core.Case, w *tc.World, dir string) *Ctx {
	return &Ctx{Env: env, Case: c, World: w, Dir: dir, Notes: map[string]int{}, Extra: map[string]any{}}
}

func (x *Ctx) Note(k string) { x.Notes[k]++ }

// Run executes moq for the case's own command line (once).
func (x *Ctx) Run() *core.Result {
	if x.Res == nil {
		x.Res = core.RunMoq(x.Env, x.Case, x.Dir)
		x.Judged = x.Res.Output()
	}
	return x.Res
}

// RunWith executes moq with a modified configuration on the same materialised world.
func (x *Ctx) RunWith(mod func(cfg *core.Config)) (*core.Case, *core.Result) {
	c2 := x.Case.Clone()
	mod(&c2.Cfg)
	return c2, core.RunMoq(x.Env, c2, x.Dir)
}

var crashRe = regexp.MustCompile(`(?m)^(panic:|fatal error:|runtime:|goroutine \d+ \[|runtime: goroutine stack exceeds)`)

var flagErrRe = regexp.MustCompile(`(?m)^(flag provided but not defined: |invalid boolean value |invalid value |flag needs an argument: |bad flag syntax: )`)

// Crashed reports a Go runtime crash signature.
func Crashed(r *core.Result) (bool, string) {
	if r.TimedOut {
		return true, "watchdog expired"
	}
	if r.Signal != "" {
		return true, "killed by signal " + r.Signal
	}
	if m := crashRe.Find(r.Stderr); m != nil {
		line := string(r.Stderr)
		if i := strings.Index(line, string(m)); i >= 0 {
			line = line[i:]
		}
		if j := strings.IndexByte(line, '\n'); j >= 0 {
			line = line[:j]
		}
		return true, "runtime crash: " + line
	}
	if r.Exit == 2 && flagErrRe.Match(r.Stderr) {
		// package flag's own refusal (undefined flag, unparsable value): usage on stderr, exit status 2 - a diagnostic
		return false, ""
	}
	if r.Exit != 0 && r.Exit != 1 {
		return true, fmt.Sprintf("exit status %d", r.Exit)
	}
	return false, ""
}

// Accepted runs moq and, if it refuses its own output in the formatter, applies the
// rejected-by-formatter rule (re-run with -fmt noop). ok=false means there is no text to judge.
func (x *Ctx) Accepted() (ok bool) {
	r := x.Run()
	if r.Exit == 0 {
		return !r.TimedOut
	}
	first := r.StderrFirstLine()
	if strings.HasPrefix(first, "go/format:") || strings.HasPrefix(first, "goimports:") {
		x.Note("rejected_by_own_formatter")
		_, r2 := x.RunWith(func(cfg *core.Config) { cfg.Fmt = "noop"; cfg.Out = "" })
		if r2.Exit == 0 {
			x.Judged = r2.Stdout
			x.ViaNoop = true
			return true
		}
	}
	x.Note("rejected_valid_inputs")
	return false
}

// Dest type-checks the judged text in its destination (cached).
func (x *Ctx) Dest() *tc.Dest {
	if x.dest == nil {
		x.dest = x.World.CheckOutput(x.Judged)
	}
	return x.dest
}

// PlaceOutput writes text where the destination package expects it and returns the package dir.
func (x *Ctx) PlaceOutput(text []byte) (pkgDir string, err error) {
	c := x.Case
	root := c.Root(x.Dir)
	var file string
	switch c.Cfg.DestKind {
	case "other":
		pkgDir = filepath.Join(root, "out", c.Cfg.Pkg)
		file = filepath.Join(pkgDir, "zz_moq_confirm.go")
	case "test":
		pkgDir = filepath.Join(root, c.SrcDir)
		file = filepath.Join(pkgDir, "zz_moq_confirm_test.go")
	default:
		pkgDir = filepath.Join(root, c.SrcDir)
		file = filepath.Join(pkgDir, "zz_moq_confirm.go")
		if c.Cfg.Out != "" {
			_ = os.Remove(filepath.Join(root, c.Cfg.Out))
		}
	}
	if c.Cfg.Out != "" && c.Cfg.DestKind != "implicit" && c.Cfg.DestKind != "same" {
		_ = os.Remove(filepath.Join(root, c.Cfg.Out))
	}
	if err = os.MkdirAll(pkgDir, 0o755); err != nil {
		return
	}
	err = os.WriteFile(file, text, 0o644)
	return
}

// GoVet runs the real toolchain's type check (go vet with one cheap analyzer; it type-checks
// test files as well) on the destination package. ok = compiles.
func (x *Ctx) GoVet(text []byte) (ok bool, output string) {
	pkgDir, err := x.PlaceOutput(text)
	if err != nil {
		return false, "harness: " + err.Error()
	}
	gobin := filepath.Join(x.Env.GoRoot, "bin", "go")
	r := core.RunCmd(x.Env, x.Case, x.Dir, pkgDir, gobin, []string{"vet", "-assign", "."}, x.Env.Watchdog*3)
	return r.Exit == 0, string(r.Stderr) + string(r.Stdout)
}
