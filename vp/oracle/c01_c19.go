package oracle

import (
	"fmt"
	"go/ast"
	"strconv"
	"strings"

	"verif/vp/core"
)

// C01: the emitted text is a complete Go file that type-checks in its destination package.
func C01(x *Ctx) []Violation {
	if !x.Accepted() {
		return nil
	}
	d := x.Dest()
	var vs []Violation
	if d.ParseErr != nil {
		return []Violation{{"C01", "parses", "output is not a complete Go file: " + d.ParseErr.Error()}}
	}
	if len(d.TypeErrs) > 0 {
		vs = append(vs, Violation{"C01", "typechecks", "output does not type-check in its destination package: " + strings.Join(d.ErrStrings(4), " | ")})
	}
	// non-trivial: not the all-defaults configuration, or mentions a package besides sync, or generic
	cfg := x.Case.Cfg
	nonDefault := cfg.Stub || cfg.SkipEnsure || cfg.WithResets || cfg.DestKind != "implicit" || cfg.Fmt != "" || len(cfg.Args) > 1
	imports := 0
	for _, im := range d.File.Imports {
		if p, _ := strconv.Unquote(im.Path.Value); p != "sync" {
			imports++
		}
	}
	generic := false
	ast.Inspect(d.File, func(n ast.Node) bool {
		if ts, ok := n.(*ast.TypeSpec); ok && ts.TypeParams != nil {
			generic = true
		}
		return true
	})
	x.NonTrivial = nonDefault || imports > 0 || generic
	return vs
}

// ExpectDiag is set by the hostile-argument mutator: "diag:<substring>" must appear in stderr when moq fails.
func expectDiag(x *Ctx) string {
	if strings.HasPrefix(x.Case.Expect, "diag:") {
		return strings.TrimPrefix(x.Case.Expect, "diag:")
	}
	return ""
}

// C19: terminates promptly with output or a diagnostic; never a runtime crash.
func C19(x *Ctx) []Violation {
	r := x.Run()
	var vs []Violation
	if r.TimedOut {
		// "never hangs": an expired watchdog counts only when it reproduces twice with a doubled limit
		// (a loaded machine must not turn into a violation)
		saved := x.Env.Watchdog
		x.Env.Watchdog = 2 * saved
		reproduced := true
		for i := 0; i < 2 && reproduced; i++ {
			if _, r2 := x.RunWith(func(cfg *core.Config) {}); !r2.TimedOut {
				reproduced = false
				r = r2
				x.Res = r2
			}
		}
		x.Env.Watchdog = saved
		if !reproduced {
			x.Note("slow_run_not_reproduced")
		}
	}
	if crashed, what := Crashed(r); crashed {
		return []Violation{{"C19", "no-crash", fmt.Sprintf("moq %v: %s", r.Argv, what)}}
	}
	want := expectDiag(x)
	switch r.Exit {
	case 0:
		if want != "" && !strings.HasPrefix(want, "?") {
			vs = append(vs, Violation{"C19", "diagnostic", fmt.Sprintf("moq %v exited 0 although an argument is invalid (expected a diagnostic containing %q)", r.Argv, want)})
		}
		if len(r.Output()) == 0 {
			vs = append(vs, Violation{"C19", "output-or-diagnostic", fmt.Sprintf("moq %v exited 0 without producing output", r.Argv)})
		}
	case 1:
		first := r.StderrFirstLine()
		if strings.TrimSpace(first) == "" {
			vs = append(vs, Violation{"C19", "diagnostic", fmt.Sprintf("moq %v exited 1 with an empty diagnostic", r.Argv)})
		} else if want != "" {
			w := strings.TrimPrefix(want, "?")
			ok := false
			for _, alt := range strings.Split(w, "||") {
				if strings.Contains(first, alt) {
					ok = true
				}
			}
			// arguments are handled in order: an earlier, valid argument may be refused for a reason of its own
			// (F-X: its methods clash with generated members) - that diagnostic names its mock and the member
			if !ok && strings.HasPrefix(first, "cannot generate ") && strings.Contains(first, "would both be named") {
				ok = true
				x.Note("refused_earlier_argument_member_clash")
			}
			if !ok {
				vs = append(vs, Violation{"C19", "diagnostic", fmt.Sprintf("moq %v: diagnostic %q does not name the offending type/stage (expected %q)", r.Argv, first, w)})
			}
		}
	}
	x.NonTrivial = r.Exit != 0 || x.Case.HasLabel("import:same-name") || x.Case.HasLabel("import:sanitise-equal") || x.Case.HasLabel("import:std-shadow")
	return vs
}
