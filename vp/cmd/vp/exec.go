package main

import (
	"encoding/json"
	"fmt"
	"os"
	"os/exec"
	"path/filepath"
	"regexp"
	"sort"
	"strconv"
	"strings"
	"sync"
)

type batchEntry struct {
	World   string   `json:"world"`
	Imports []string `json:"imports"`
	Mocks   []string `json:"mocks"`
	Labels  []string `json:"labels"`
}

type batchStats struct {
	Generated     int            `json:"generated"`
	Kept          int            `json:"kept"`
	Invalid       int            `json:"invalid_worlds"`
	Rejected      int            `json:"rejected_by_moq"`
	NotCompiling  int            `json:"output_not_compiling"`
	NoWitness     int            `json:"no_witness_type_arguments"`
	Labels        map[string]int `json:"labels"`
	Excl          map[string]int `json:"excluded_known"`
	Entries       []batchEntry   `json:"entries"`
	DroppedSample []string       `json:"dropped_samples"`
}

// execEnv is the environment for building and running the exec module (cgo allowed: the race detector needs it).
func (s *session) execEnv() []string {
	var out []string
	for _, e := range buildEnv() {
		if strings.HasPrefix(e, "CGO_ENABLED=") || strings.HasPrefix(e, "GOCACHE=") {
			continue
		}
		out = append(out, e)
	}
	return append(out, "GOCACHE="+filepath.Join(s.scratch, "gocache"), "GOROOT="+s.goroot, "PATH="+filepath.Join(s.goroot, "bin")+":"+os.Getenv("PATH"))
}

// genBatch generates the worlds of the batch (sharded rapid generation) or rebuilds one saved world.
func (s *session) genBatch(prop string, worlds int, replayCase string) (batch string, total batchStats, lines []string) {
	batch = filepath.Join(s.scratch, "execmod")
	_ = os.MkdirAll(batch, 0o755)
	_ = os.WriteFile(filepath.Join(batch, "go.mod"), []byte("module execmod\n\ngo 1.24\n"), 0o644)
	bin := s.buildHarness("execgen")
	env := append(s.harnessEnv(prop), "VP_BATCH_DIR="+batch)
	nshards, per := shardCount(worlds)
	if replayCase != "" {
		nshards, per = 1, 1
		env = append(env, "VP_GEN_CASE="+replayCase, "VP_OPEN=")
	}
	total.Labels, total.Excl = map[string]int{}, map[string]int{}
	var mu sync.Mutex
	var wg sync.WaitGroup
	for i := 0; i < nshards; i++ {
		wg.Add(1)
		go func(i int) {
			defer wg.Done()
			dir := filepath.Join(s.scratch, fmt.Sprintf("g%d", i))
			_ = os.MkdirAll(dir, 0o755)
			cmd := exec.Command(bin, "-test.run", "^TestGenBatch$", "-test.timeout", "0", "-test.count", "1",
				"-rapid.checks", strconv.Itoa(per), "-rapid.seed", strconv.FormatUint(shardSeed(prop+"/gen", i), 10), "-rapid.nofailfile")
			cmd.Dir = dir
			cmd.Env = append(append([]string{}, env...), "VP_SHARD="+strconv.Itoa(i), "VP_SHARD_DIR="+dir)
			out, err := cmd.CombinedOutput()
			var st batchStats
			b, rerr := os.ReadFile(filepath.Join(dir, "batch.json"))
			mu.Lock()
			defer mu.Unlock()
			if rerr != nil || json.Unmarshal(b, &st) != nil {
				lines = append(lines, fmt.Sprintf("INFRA generation shard %d: %v\n%s", i, err, tail(string(out), 20)))
				return
			}
			total.Generated += st.Generated
			total.Kept += st.Kept
			total.Invalid += st.Invalid
			total.Rejected += st.Rejected
			total.NotCompiling += st.NotCompiling
			total.NoWitness += st.NoWitness
			for k, v := range st.Labels {
				total.Labels[k] += v
			}
			for k, v := range st.Excl {
				total.Excl[k] += v
			}
			total.Entries = append(total.Entries, st.Entries...)
			if len(total.DroppedSample) < 6 {
				total.DroppedSample = append(total.DroppedSample, st.DroppedSample...)
			}
		}(i)
	}
	wg.Wait()
	sort.Slice(total.Entries, func(i, j int) bool { return total.Entries[i].World < total.Entries[j].World })
	return
}

// assemble writes go.mod/go.sum, the driver package and the runner test, then builds the test binary.
func (s *session) assemble(batch string, entries []batchEntry, race bool, binName string) (bin string, err error) {
	gomod := "module execmod\n\ngo 1.24\n\nrequire pgregory.net/rapid v1.3.0\n"
	_ = os.WriteFile(filepath.Join(batch, "go.mod"), []byte(gomod), 0o644)
	if b, e := os.ReadFile(filepath.Join(verifDir, "vp", "go.sum")); e == nil {
		_ = os.WriteFile(filepath.Join(batch, "go.sum"), b, 0o644)
	}
	drv := filepath.Join(batch, "execdrv")
	_ = os.MkdirAll(drv, 0o755)
	srcs, _ := filepath.Glob(filepath.Join(verifDir, "vp", "execdrv", "*.go"))
	for _, f := range srcs {
		if strings.HasSuffix(f, "_test.go") {
			continue
		}
		b, _ := os.ReadFile(f)
		b = []byte(strings.ReplaceAll(string(b), `"verif/vp/vsync"`, `"execmod/vsync"`))
		_ = os.WriteFile(filepath.Join(drv, filepath.Base(f)), b, 0o644)
	}
	vs := filepath.Join(batch, "vsync")
	_ = os.MkdirAll(vs, 0o755)
	if b, e := os.ReadFile(filepath.Join(verifDir, "vp", "vsync", "vsync.go")); e == nil {
		_ = os.WriteFile(filepath.Join(vs, "vsync.go"), b, 0o644)
	}
	var sb strings.Builder
	sb.WriteString("package runner\n\nimport (\n\t\"testing\"\n\n\t\"execmod/execdrv\"\n")
	seen := map[string]bool{}
	for _, e := range entries {
		for _, ip := range e.Imports {
			if !seen[ip] {
				seen[ip] = true
				fmt.Fprintf(&sb, "\t_ %q\n", ip)
			}
		}
	}
	sb.WriteString(")\n\nfunc TestExec(t *testing.T) { execdrv.Main(t) }\n\nfunc TestExecReplay(t *testing.T) { execdrv.Replay(t) }\n")
	_ = os.MkdirAll(filepath.Join(batch, "runner"), 0o755)
	_ = os.WriteFile(filepath.Join(batch, "runner", "runner_test.go"), []byte(sb.String()), 0o644)
	bin = filepath.Join(s.scratch, binName)
	args := []string{"test", "-c", "-vet=off", "-o", bin}
	if race {
		args = append(args, "-race")
	}
	args = append(args, "./runner")
	out, e := run(batch, s.execEnv(), filepath.Join(s.goroot, "bin", "go"), args...)
	if e != nil {
		return "", fmt.Errorf("building the exec module failed: %v\n%s", e, tail(out, 40))
	}
	return bin, nil
}

func execWorlds(b budget, tier string) int {
	n := b.WorldsQuick
	if tier == "thorough" {
		n = b.WorldsThorough
	}
	if v := os.Getenv("VP_WORLDS"); v != "" {
		n, _ = strconv.Atoi(v)
	}
	return n
}

// execCampaign is harness X for one property.
func execCampaign(s *session, c *campaign, prop, tier string, total int) {
	b := budgets[prop]
	race := prop == "C05"
	// known findings / corpus of this property (exec replays)
	for _, f := range loadFindings() {
		if f.Property != prop || f.Replay == "" {
			continue
		}
		rc, msg := execReplay(s, filepath.Join(verifDir, f.Replay), "k"+f.ID)
		switch {
		case f.Status == "open" && rc == 1:
			c.lines = append(c.lines, fmt.Sprintf("KNOWN-FINDING: property=%s %s %s", prop, f.ID, f.Title))
		case f.Status == "open" && rc == 0:
			c.lines = append(c.lines, fmt.Sprintf("note: known finding %s no longer reproduces (repaired?)", f.ID))
		case f.Status == "fixed" && rc == 1:
			c.violations++
			c.lines = append(c.lines, fmt.Sprintf("VIOLATION property=%s replay=%s", prop, filepath.Join(verifDir, f.Replay)), "  fixed finding "+f.ID+" is back: "+msg)
		case rc == 2:
			c.infra++
			c.lines = append(c.lines, "INFRA replay of "+f.ID+": "+msg)
		}
	}
	corpus, _ := filepath.Glob(filepath.Join(verifDir, "corpus", prop, "*"))
	sort.Strings(corpus)
	for i, path := range corpus {
		rc, msg := execReplay(s, path, fmt.Sprintf("c%d", i))
		if rc == 1 {
			c.violations++
			c.lines = append(c.lines, fmt.Sprintf("VIOLATION property=%s replay=%s", prop, path), "  "+msg)
		} else if rc == 2 {
			c.infra++
			c.lines = append(c.lines, "INFRA corpus replay "+path+": "+msg)
		}
	}

	batch, bst, glines := s.genBatch(prop, execWorlds(b, tier), "")
	c.lines = append(c.lines, glines...)
	c.infra += len(glines)
	if bst.Kept == 0 {
		c.infra++
		c.lines = append(c.lines, fmt.Sprintf("INFRA no world survived generation (generated %d, rejected %d, not compiling %d): %v", bst.Generated, bst.Rejected, bst.NotCompiling, bst.DroppedSample))
		return
	}
	bin, err := s.assemble(batch, bst.Entries, race, "runner.test")
	if err != nil {
		c.infra++
		c.lines = append(c.lines, "INFRA "+err.Error())
		return
	}
	runShards := func(bin string, total int, tag string, race bool, extraEnv ...string) {
		env := append(s.harnessEnv(prop), "VP_TIER="+tier)
		env = append(env, extraEnv...)
		if race {
			env = append(env, "GORACE=halt_on_error=1 exitcode=66")
		}
		nshards, per := shardCount(total)
		shrink := "30s"
		if tier == "thorough" {
			shrink = "2m"
		}
		type res struct {
			idx  int
			dir  string
			out  string
			err  error
			code int
		}
		results := make([]*res, nshards)
		var wg sync.WaitGroup
		for i := 0; i < nshards; i++ {
			wg.Add(1)
			go func(i int) {
				defer wg.Done()
				dir := filepath.Join(s.scratch, fmt.Sprintf("%s%d", tag, i))
				_ = os.MkdirAll(dir, 0o755)
				// the timeout is a watchdog against a deadlock inside generated code that the probes did not catch
				// first: it makes the shard exit 2 (inconclusive), never a violation
				cmd := exec.Command(bin, "-test.run", "^TestExec$", "-test.timeout", execTimeout(tier), "-test.count", "1",
					"-rapid.checks", strconv.Itoa(per), "-rapid.seed", strconv.FormatUint(shardSeed(prop+tag, i), 10),
					"-rapid.shrinktime", shrink, "-rapid.nofailfile")
				cmd.Dir = dir
				cmd.Env = append(append([]string{}, env...), "VP_SHARD="+strconv.Itoa(i), "VP_SHARD_DIR="+dir)
				out, err := cmd.CombinedOutput()
				r := &res{idx: i, dir: dir, out: string(out), err: err}
				if ee, ok := err.(*exec.ExitError); ok {
					r.code = ee.ExitCode()
				}
				results[i] = r
			}(i)
		}
		wg.Wait()

		saveReplay := func(r *res, historyFile string) (string, bool) {
			hb, err := os.ReadFile(filepath.Join(r.dir, historyFile))
			if err != nil {
				return "", false
			}
			var fc struct {
				MockID string `json:"mock_id"`
			}
			_ = json.Unmarshal(hb, &fc)
			world := fc.MockID
			if i := strings.Index(world, "/"); i >= 0 {
				world = world[:i]
			}
			dst := filepath.Join(verifDir, "replays", fmt.Sprintf("%s-%016x", prop, hashBytes(hb)))
			_ = os.RemoveAll(dst)
			_ = os.MkdirAll(dst, 0o755)
			_ = os.WriteFile(filepath.Join(dst, "history.json"), hb, 0o644)
			if cb, err := os.ReadFile(filepath.Join(batch, world, "vp_case.json")); err == nil {
				var cs map[string]any
				_ = json.Unmarshal(cb, &cs)
				cs["property"] = prop
				cb, _ = json.MarshalIndent(cs, "", " ")
				_ = os.WriteFile(filepath.Join(dst, "case.json"), cb, 0o644)
			}
			_, _ = run("/", nil, "cp", "-a", filepath.Join(batch, world), filepath.Join(dst, "world"))
			return dst, true
		}
		for _, r := range results {
			var st map[string]any
			if sb, e := os.ReadFile(filepath.Join(r.dir, "stats.json")); e == nil {
				_ = json.Unmarshal(sb, &st)
			}
			if st != nil {
				c.merged.add(st)
			}
			switch {
			case r.err == nil:
				if st == nil {
					c.infra++
					c.lines = append(c.lines, fmt.Sprintf("INFRA exec shard %d wrote no stats\n%s", r.idx, tail(r.out, 20)))
				}
			case r.code == 66 || strings.Contains(r.out, "WARNING: DATA RACE"):
				dst, ok := saveReplay(r, "current.json")
				if !ok {
					c.infra++
					c.lines = append(c.lines, fmt.Sprintf("INFRA race reported but no current.json in shard %d\n%s", r.idx, tail(r.out, 30)))
					continue
				}
				_ = os.WriteFile(filepath.Join(dst, "race_report.txt"), []byte(r.out), 0o644)
				c.violations++
				c.lines = append(c.lines, fmt.Sprintf("VIOLATION property=%s replay=%s", prop, dst), "  data race inside generated code: "+raceSummary(r.out))
			case r.code == 67:
				// the stuck-operation monitor of the run side: an operation on a mock never returned
				dst, ok := saveReplay(r, "stuck.json")
				if !ok {
					c.infra++
					c.lines = append(c.lines, fmt.Sprintf("INFRA exec shard %d: an operation never returned but no stuck.json\n%s", r.idx, tail(r.out, 30)))
					continue
				}
				var fc struct {
					Violation struct {
						Oracle string `json:"oracle"`
						Msg    string `json:"msg"`
					} `json:"violation"`
				}
				hb, _ := os.ReadFile(filepath.Join(dst, "history.json"))
				_ = json.Unmarshal(hb, &fc)
				if prop == "C06" {
					c.violations++
					c.lines = append(c.lines, fmt.Sprintf("VIOLATION property=%s replay=%s", prop, dst), "  "+fc.Violation.Oracle+": "+firstN(fc.Violation.Msg, 900))
				} else {
					// a deadlock inside generated code is C06's subject: this property cannot be judged on such a tree
					_ = os.RemoveAll(dst)
					c.infra++
					c.lines = append(c.lines, fmt.Sprintf("INFRA exec shard %d: an operation on a mock never returned (deadlock inside generated code, see C06); %s cannot be judged: %s", r.idx, prop, firstN(fc.Violation.Msg, 300)))
				}
			default:
				if dst, ok := saveReplay(r, "fail.json"); ok {
					var fc struct {
						Violation struct {
							Oracle string `json:"oracle"`
							Msg    string `json:"msg"`
						} `json:"violation"`
					}
					hb, _ := os.ReadFile(filepath.Join(dst, "history.json"))
					_ = json.Unmarshal(hb, &fc)
					c.violations++
					c.lines = append(c.lines, fmt.Sprintf("VIOLATION property=%s replay=%s", prop, dst), "  "+fc.Violation.Oracle+": "+firstN(fc.Violation.Msg, 500))
				} else {
					c.infra++
					c.lines = append(c.lines, fmt.Sprintf("INFRA exec shard %d failed without a saved case (exit %d)\n%s", r.idx, r.code, tail(r.out, 40)))
				}
			}
		}
	}
	runShards(bin, total, "x", race)
	// harness-owned schedules: the same batch with the mocks' sync import redirected to vsync (plain build)
	if prop == "C05" || prop == "C06" {
		nrew := redirectSync(batch, bst.Entries)
		sbin, err := s.assemble(batch, bst.Entries, false, "runner_sched.test")
		if err != nil {
			c.infra++
			c.lines = append(c.lines, "INFRA (sched build) "+err.Error())
		} else {
			stotal := b.SchedQuick
			if tier == "thorough" {
				stotal = b.SchedThorough
			}
			if v := os.Getenv("VP_SCHED_CHECKS"); v != "" {
				stotal, _ = strconv.Atoi(v)
			}
			runShards(sbin, stotal, "y", false, "VP_MODE=sched")
			c.merged.extra["sched_mock_files_redirected_to_vsync"] = float64(nrew)
			c.merged.extra["sched_cases_requested"] = float64(stotal)
		}
	}
	// build-side facts go into the evidence
	c.merged.extra["exec_worlds_generated"] = float64(bst.Generated)
	c.merged.extra["exec_worlds_kept"] = float64(bst.Kept)
	c.merged.extra["exec_worlds_rejected_by_moq"] = float64(bst.Rejected)
	c.merged.extra["exec_worlds_output_not_compiling"] = float64(bst.NotCompiling)
	c.merged.extra["exec_mocks_registered"] = float64(countMocks(bst.Entries))
	c.merged.extra["exec_world_classes"] = bst.Labels
	c.merged.extra["exec_race_build"] = race
	if len(bst.DroppedSample) > 0 {
		c.merged.extra["exec_dropped_samples"] = bst.DroppedSample
	}
	for k, v := range bst.Excl {
		c.merged.excl[k] += v
	}
	c.merged.invalid += bst.Invalid
}

func execTimeout(tier string) string {
	if tier == "thorough" {
		return "40m"
	}
	return "8m"
}

func countMocks(es []batchEntry) int {
	n := 0
	for _, e := range es {
		n += len(e.Mocks)
	}
	return n
}

func firstN(s string, n int) string {
	if len(s) > n {
		return s[:n] + "..."
	}
	return s
}

func raceSummary(out string) string {
	i := strings.Index(out, "WARNING: DATA RACE")
	if i < 0 {
		return "(exit status 66)"
	}
	lines := strings.Split(out[i:], "\n")
	var keep []string
	for _, l := range lines {
		if strings.Contains(l, "Mock).") || strings.HasPrefix(l, "Write at") || strings.HasPrefix(l, "Read at") || strings.HasPrefix(l, "Previous") {
			keep = append(keep, strings.TrimSpace(l))
		}
		if len(keep) >= 6 {
			break
		}
	}
	return strings.Join(keep, " | ")
}

// execReplay rebuilds the one world of a saved exec replay and re-runs its history. rc: 0 ok, 1 violation, 2 infra.
func execReplay(s *session, dir, tag string) (int, string) {
	cb, err := os.ReadFile(filepath.Join(dir, "case.json"))
	if err != nil {
		return 2, err.Error()
	}
	var cs struct {
		Prop string `json:"property"`
	}
	_ = json.Unmarshal(cb, &cs)
	sub := &session{scratch: filepath.Join(s.scratch, "rp"+tag), goroot: s.goroot, moq: s.moq, t0: s.t0}
	_ = os.MkdirAll(sub.scratch, 0o755)
	// share the tools and the go cache of the parent session
	_ = os.Symlink(filepath.Join(s.scratch, "gocache"), filepath.Join(sub.scratch, "gocache"))
	_ = os.Symlink(filepath.Join(s.scratch, "bin"), filepath.Join(sub.scratch, "bin"))
	batch, bst, lines := sub.genBatch(cs.Prop, 1, filepath.Join(dir, "case.json"))
	if len(lines) > 0 || bst.Kept == 0 {
		return 2, fmt.Sprintf("world could not be rebuilt: %v %v", lines, bst.DroppedSample)
	}
	race := cs.Prop == "C05"
	sched := false
	if hb, e := os.ReadFile(filepath.Join(dir, "history.json")); e == nil && strings.Contains(string(hb), `"mode": "sched"`) {
		sched = true
		redirectSync(batch, bst.Entries)
		race = false
	}
	_ = sched
	bin, err := sub.assemble(batch, bst.Entries, race, "runner.test")
	if err != nil {
		return 2, err.Error()
	}
	outFile := filepath.Join(sub.scratch, "replay_out.json")
	cmd := exec.Command(bin, "-test.run", "^TestExecReplay$", "-test.count", "1", "-test.timeout", "10m")
	cmd.Dir = sub.scratch
	cmd.Env = append(s.harnessEnv(cs.Prop), "VP_REPLAY_FILE="+filepath.Join(dir, "history.json"), "VP_REPLAY_OUT="+outFile, "GORACE=halt_on_error=1 exitcode=66")
	out, rerr := cmd.CombinedOutput()
	if ee, ok := rerr.(*exec.ExitError); ok && (ee.ExitCode() == 66 || strings.Contains(string(out), "WARNING: DATA RACE")) {
		return 1, "data race: " + raceSummary(string(out))
	}
	rb, err := os.ReadFile(outFile)
	if err != nil {
		return 2, tail(string(out), 20)
	}
	var res struct {
		Violations []map[string]any `json:"violations"`
		Error      string           `json:"error"`
	}
	_ = json.Unmarshal(rb, &res)
	if res.Error != "" {
		return 2, res.Error
	}
	if len(res.Violations) > 0 {
		return 1, fmt.Sprint(res.Violations[0]["oracle"], ": ", res.Violations[0]["msg"])
	}
	return 0, ""
}

var syncImportRe = regexp.MustCompile(`(?m)^(\s*)(?:(\w+)\s+)?"sync"[ \t]*$`)

// redirectSync rewrites moq's OUTPUT (never moq): the sync import of every generated mock file of the batch is
// pointed at the API-identical vsync package, so every lock operation becomes a scheduling point.
func redirectSync(batch string, entries []batchEntry) int {
	n := 0
	for _, e := range entries {
		for _, ip := range e.Imports {
			file := filepath.Join(batch, strings.TrimPrefix(ip, "execmod/"), "mock_gen.go")
			b, err := os.ReadFile(file)
			if err != nil {
				continue
			}
			out := syncImportRe.ReplaceAllStringFunc(string(b), func(m string) string {
				sm := syncImportRe.FindStringSubmatch(m)
				alias := sm[2]
				if alias == "" {
					alias = "sync"
				}
				return sm[1] + alias + ` "execmod/vsync"`
			})
			if out != string(b) {
				n++
				_ = os.WriteFile(file, []byte(out), 0o644)
			}
		}
	}
	return n
}
