package main

func init() {
	budgets["C01"] = budget{Harness: "static", Quick: 1600, Thorough: 24000, Level: "exploration",
		Rule: "rapid draws a Go world (module, 0-4 dependency packages, source package with 1-3 interfaces) and a moq command line; non-trivial = moq accepted the case and (a non-default flag/destination/formatter/multi-argument is used, or the output imports a package other than sync, or the mock is generic); distinct = distinct sha256 of (world files, command line)"}
	budgets["C19"] = budget{Harness: "static", Quick: 1600, Thorough: 24000, Level: "exploration",
		Rule: "worlds with 2-6 dependency packages drawn from a colliding import-path grammar, 35% of command lines carry one hostile interface argument; non-trivial = the run took an error path (exit != 0) or the world has >=2 imported packages sharing a name / sanitised name / shadowing a std package; distinct by sha256 of the case"}
}
