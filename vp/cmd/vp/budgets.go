package main

const worldRule = "rapid draws a Go world (module example.com/w, dependency packages from a colliding path grammar, source package with 1-4 interfaces over the full type grammar) and a moq command line (flags x destination x formatter x interface arguments x invocation style); distinct = distinct sha256 of (world files, command line); "

func init() {
	st := func(q, t int, rule string) budget {
		return budget{Harness: "static", Quick: q, Thorough: t, Level: "exploration", Rule: worldRule + rule}
	}
	budgets["C01"] = st(1600, 24000, "non-trivial = moq accepted the case and (a non-default flag/destination/formatter/multi-argument is used, or the output imports a package other than sync, or the mock is generic)")
	budgets["C02"] = st(1600, 20000, "non-trivial = a requested interface has >=2 methods, an embedded/aliased part or a variadic method")
	budgets["C09"] = st(1600, 20000, "85% generic interfaces; non-trivial = a mock with >=1 non-any constraint for which the candidate pool contains >=1 accepted and >=1 rejected type-argument tuple")
	budgets["C10"] = st(1600, 20000, "non-trivial = a non-implicit destination (-pkg given), or -skip-ensure with an interface that does not mention the source package")
	budgets["C11"] = st(1600, 24000, "3-6 dependency packages from the colliding path grammar; non-trivial = the output imports >=2 packages sharing a package name or a sanitised base name, or a package the source file aliases")
	budgets["C12"] = st(1600, 24000, "adversarial parameter-name pools; non-trivial = a generated method in which a numbered, a MoqParam/Out-suffixed or a package-named identifier occurs")
	budgets["C13"] = st(1600, 16000, "adversarial names + unnamed parameters over the type grammar; non-trivial = an asserted parameter whose record field differs from plain first-letter capitalisation (initialism) or an asserted unnamed parameter of a non-basic type")
	budgets["C14"] = st(480, 4000, "each case is executed 4 (thorough: 8) times as separate processes plus twice through the library in one child process; non-trivial = output with >=3 import specs, >=1 import alias or >=1 renamed parameter")
	budgets["C16"] = st(800, 10000, "each case is generated under the default formatter, gofmt, noop and goimports; non-trivial = output importing both std and non-std packages or containing a line longer than 100 columns")
	budgets["C15"] = budget{Harness: "clifs", Quick: 320, Thorough: 3000, Level: "exploration",
		Rule: "rapid draws an in-place world with two source versions (v2 adds a method) and a history of 4-9 steps over one -out path (generate, generate -rm, scribble absent/own output/other version's output/random bytes/non-compiling Go/clashing declarations, evolve); non-trivial = a history that regenerates over moq's own output containing an import alias, or runs -rm over prior content that is not the clean output; distinct by sha256(world, command line, history)"}
	budgets["C17"] = budget{Harness: "clifs", Quick: 480, Thorough: 6000, Level: "fault_enumeration",
		Rule: "rapid samples the matrix failure point {none, <2 args, source missing/empty/syntax error/type error/two packages, k-th of n arguments bad, parent is a file, -out is a directory, immutable file, immutable directory, over-long name, -rm on a non-empty directory} x prior state of -out {absent, arbitrary bytes, previous good output} x -rm x -out location x flags; plus the library writer probe (counting / failing writer) in a child process; non-trivial = a failing run with a pre-existing -out file, or a bad k-th argument after >=1 good one, or a nested -out path"}
	budgets["C18"] = budget{Harness: "clifs", Quick: 480, Thorough: 6000, Level: "fault_enumeration",
		Rule: "the runs of C17 (successful and every failure kind) plus -pkg values naming an existing / a missing sub-directory and nested -out directories; the whole scratch tree (module + foreign cwd) is content-hashed before and after; non-trivial = a failing run, a -pkg directory probe, or an -out path two or more directories deep"}
	budgets["C19"] = st(1600, 24000, "35% of command lines carry one hostile interface argument; non-trivial = the run took an error path (exit != 0) or the world has >=2 imported packages sharing a name / sanitised name / shadowing a std package")
	budgets["C20"] = st(960, 12000, "85% multi-argument command lines; every interface of a joint run is also generated alone; non-trivial = >=2 requested mocks whose solo outputs share >=1 imported package")
}
