// Command vp is the driver of the /verif machinery: it rebuilds moq from the
// working tree of /repo, runs the sharded rapid campaigns of one property,
// merges what the shards measured into the evidence file and reports.
//
//	vp check <Cxx> <quick|thorough>
//	vp replay <dir>
//	vp setup
package main

import (
	"encoding/json"
	"fmt"
	"os"
	"os/exec"
	"path/filepath"
	"sort"
	"strconv"
	"strings"
	"sync"
	"time"
)

// verifDir is where the machinery lives (the check script passes its own directory, so a snapshot of /verif works too).
var verifDir = func() string {
	if d := os.Getenv("VP_VERIF_DIR"); d != "" {
		return d
	}
	return "/verif"
}()

type budget struct {
	Harness  string // static | clifs | exec
	Quick    int    // rapid checks (total over shards)
	Thorough int
	Level    string
	Rule     string
	// exec harness: number of worlds in the batch
	WorldsQuick, WorldsThorough int
	// C08: size of the static half
	StaticQuick, StaticThorough int
	// C05/C06: cases under the harness-owned scheduler
	SchedQuick, SchedThorough int
}

func (b budget) StaticQuickOrThorough(tier string) int {
	if tier == "thorough" {
		return b.StaticThorough
	}
	return b.StaticQuick
}

var budgets = map[string]budget{}

func repoDir() string {
	if d := os.Getenv("VERIF_REPO"); d != "" {
		return d
	}
	return "/repo"
}

func seedBase() uint64 {
	s := os.Getenv("VERIF_SEED")
	if s == "" {
		return 1
	}
	v, err := strconv.ParseInt(s, 10, 64)
	if err != nil {
		return 1
	}
	return uint64(v)
}

func splitmix(x uint64) uint64 {
	x += 0x9e3779b97f4a7c15
	z := x
	z = (z ^ (z >> 30)) * 0xbf58476d1ce4e5b9
	z = (z ^ (z >> 27)) * 0x94d049bb133111eb
	return z ^ (z >> 31)
}

func shardSeed(prop string, shard int) uint64 {
	h := seedBase()
	for _, b := range []byte(prop) {
		h = splitmix(h ^ uint64(b))
	}
	h = splitmix(h ^ uint64(shard)*0x1234567)
	h &= 0x7fffffffffffffff
	return h | 1
}

type session struct {
	scratch string
	goroot  string
	env     []string // environment of harness (shard) processes
	moq     string
	t0      time.Time
}

func die(code int, format string, a ...any) {
	fmt.Fprintf(os.Stderr, "vp: "+format+"\n", a...)
	os.Exit(code)
}

func run(dir string, env []string, name string, args ...string) (string, error) {
	cmd := exec.Command(name, args...)
	cmd.Dir = dir
	if env != nil {
		cmd.Env = env
	}
	out, err := cmd.CombinedOutput()
	return string(out), err
}

func buildEnv() []string {
	env := os.Environ()
	var out []string
	for _, e := range env {
		if strings.HasPrefix(e, "GOFLAGS=") || strings.HasPrefix(e, "GOPROXY=") || strings.HasPrefix(e, "GOTOOLCHAIN=") ||
			strings.HasPrefix(e, "GOSUMDB=") || strings.HasPrefix(e, "CGO_ENABLED=") {
			continue
		}
		out = append(out, e)
	}
	return append(out, "GOFLAGS=-mod=mod", "GOPROXY=off", "CGO_ENABLED=0")
}

func newSession() *session {
	s := &session{t0: time.Now()}
	base := os.Getenv("VP_SCRATCH_BASE")
	if base == "" {
		base = "/var/tmp"
	}
	d, err := os.MkdirTemp(base, "vp.")
	if err != nil {
		die(2, "scratch: %v", err)
	}
	s.scratch = d
	out, err := run(filepath.Join(verifDir, "vp"), buildEnv(), "go", "env", "GOROOT")
	if err != nil {
		die(2, "go env GOROOT: %v %s", err, out)
	}
	s.goroot = strings.TrimSpace(out)
	return s
}

func (s *session) cleanup() {
	if os.Getenv("VP_KEEP_SCRATCH") != "" { // development only
		fmt.Println("scratch kept at", s.scratch)
		return
	}
	// clear immutable bits possibly left by fault injection, then remove
	_, _ = run("/", nil, "chattr", "-R", "-i", s.scratch)
	_ = exec.Command("chmod", "-R", "u+rwx", s.scratch).Run()
	_ = os.RemoveAll(s.scratch)
}

// buildMoq copies the working tree of /repo to scratch and builds the CLI (and the library child helper).
func (s *session) buildMoq() {
	dst := filepath.Join(s.scratch, "repo")
	if out, err := run("/", nil, "rsync", "-a", "--exclude", ".git", "--exclude", "*.png", "--exclude", "*.gif", repoDir()+"/", dst+"/"); err != nil {
		die(2, "rsync: %v %s", err, out)
	}
	_ = os.MkdirAll(filepath.Join(s.scratch, "bin"), 0o755)
	s.moq = filepath.Join(s.scratch, "bin", "moq")
	env := append(buildEnv(), "CGO_ENABLED=0")
	args := []string{"build", "-tags", "verif", "-o", s.moq}
	if os.Getenv("VP_COVER") != "" {
		// development aid (tools/gen_coverage.sh): which statements of moq do the generated inputs reach?
		args = append(args, "-cover", "-coverpkg=./...")
	}
	args = append(args, ".")
	if out, err := run(dst, env, "go", args...); err != nil {
		fmt.Println(out)
		die(2, "building moq from %s failed (the tree under test must compile): %v", repoDir(), err)
	}
	// helper program using the public library API (C14 in-process repetition, C17 counting writer)
	helperSrc := filepath.Join(verifDir, "vp", "libchild", "main.go.txt")
	if b, err := os.ReadFile(helperSrc); err == nil {
		hd := filepath.Join(dst, "zz_verif_libchild")
		_ = os.MkdirAll(hd, 0o755)
		_ = os.WriteFile(filepath.Join(hd, "main.go"), b, 0o644)
		if out, err := run(dst, env, "go", "build", "-tags", "verif", "-o", filepath.Join(s.scratch, "bin", "libchild"), "./zz_verif_libchild"); err != nil {
			fmt.Println(out)
			die(2, "building libchild failed: %v", err)
		}
	}
}

// goCache prepares the per-run GOCACHE used by moq's `go list` and by ground-truth builds.
func (s *session) goCache() string {
	dst := filepath.Join(s.scratch, "gocache")
	warm := filepath.Join(verifDir, ".cache", "gocache-std")
	if _, err := os.Stat(warm); err != nil {
		warmCache(s.goroot, warm)
	}
	if out, err := run("/", nil, "cp", "-al", warm, dst); err != nil {
		if out2, err2 := run("/", nil, "cp", "-a", warm, dst); err2 != nil {
			die(2, "gocache copy: %v %s %s", err2, out, out2)
		}
	}
	return dst
}

// warmCache compiles the std packages worlds may import into a reusable build cache.
func warmCache(goroot, dir string) {
	tmp, _ := os.MkdirTemp("/var/tmp", "vpwarm.")
	defer os.RemoveAll(tmp)
	_ = os.MkdirAll(dir, 0o755)
	src := "package warm\n\nimport (\n"
	for _, p := range []string{"io", "context", "time", "net/http", "text/template", "html/template", "math/rand", "math/rand/v2", "sync", "os",
		"fmt", "net/url", "bytes", "encoding/json", "sort", "errors", "strings", "database/sql", "testing", "reflect", "unsafe", "runtime", "sync/atomic"} {
		src += "\t_ \"" + p + "\"\n"
	}
	src += ")\n"
	_ = os.WriteFile(filepath.Join(tmp, "go.mod"), []byte("module warm\n\ngo 1.24\n"), 0o644)
	_ = os.WriteFile(filepath.Join(tmp, "w.go"), []byte(src), 0o644)
	env := []string{"PATH=" + filepath.Join(goroot, "bin") + ":/usr/bin:/bin", "GOROOT=" + goroot, "GOTOOLCHAIN=local", "GOFLAGS=", "GOPROXY=off",
		"GOCACHE=" + dir, "HOME=" + tmp, "GOPATH=" + filepath.Join(tmp, "gopath"), "CGO_ENABLED=0"}
	if out, err := run(tmp, env, filepath.Join(goroot, "bin", "go"), "build", "./..."); err != nil {
		die(2, "warming go cache: %v %s", err, out)
	}
	if out, err := run(tmp, env, filepath.Join(goroot, "bin", "go"), "vet", "-assign", "./..."); err != nil {
		die(2, "warming go cache (vet): %v %s", err, out)
	}
}

func (s *session) harnessEnv(prop string) []string {
	env := buildEnv()
	home := filepath.Join(s.scratch, "home")
	_ = os.MkdirAll(home, 0o755)
	_ = os.MkdirAll(filepath.Join(s.scratch, "foreign"), 0o755)
	env = append(env,
		"VP_PROP="+prop,
		"VP_MOQ="+s.moq,
		"VP_LIBCHILD="+filepath.Join(s.scratch, "bin", "libchild"),
		"VP_GOROOT="+s.goroot,
		"VP_GOCACHE="+filepath.Join(s.scratch, "gocache"),
		"VP_HOME="+home,
		"VP_SCRATCH="+s.scratch,
		"VP_OPEN="+strings.Join(openFindings(), ","),
		"GOROOT="+s.goroot,
		"VP_TIER="+os.Getenv("VP_TIER_INTERNAL"),
	)
	if d := os.Getenv("VP_COVER"); d != "" {
		env = append(env, "VP_COVER="+d)
	}
	return env
}

// buildHarness compiles the test binary of a harness package.
func (s *session) buildHarness(pkg string) string {
	bin := filepath.Join(verifDir, "bin", pkg+".test")
	_ = os.MkdirAll(filepath.Dir(bin), 0o755)
	if out, err := run(filepath.Join(verifDir, "vp"), buildEnv(), "go", "test", "-c", "-o", bin, "./"+pkg); err != nil {
		fmt.Println(out)
		die(2, "building harness %s failed: %v", pkg, err)
	}
	return bin
}

type shardResult struct {
	idx     int
	out     string
	err     error
	dir     string
	stats   map[string]any
	timeout bool
}

func usage() {
	fmt.Fprintln(os.Stderr, "usage: vp check <Cxx> <quick|thorough> | vp replay <dir> | vp setup")
	os.Exit(2)
}

func main() {
	if len(os.Args) < 2 {
		usage()
	}
	switch os.Args[1] {
	case "setup":
		s := newSession()
		defer s.cleanup()
		warm := filepath.Join(verifDir, ".cache", "gocache-std")
		_ = os.RemoveAll(warm)
		warmCache(s.goroot, warm)
		for _, h := range []string{"static", "clifs", "execgen"} {
			if _, err := os.Stat(filepath.Join(verifDir, "vp", h)); err == nil {
				s.buildHarness(h)
			}
		}
		fmt.Println("setup ok")
	case "check":
		if len(os.Args) < 4 {
			usage()
		}
		os.Exit(check(os.Args[2], os.Args[3]))
	case "replay":
		if len(os.Args) < 3 {
			usage()
		}
		os.Exit(replay(os.Args[2]))
	default:
		usage()
	}
}

// ---------------------------------------------------------------- known findings

type finding struct {
	ID        string `json:"id"`
	Status    string `json:"status"` // open | fixed
	Property  string `json:"property"`
	Title     string `json:"title"`
	Replay    string `json:"replay,omitempty"`
	Oracle    string `json:"oracle,omitempty"`
	Signature string `json:"signature,omitempty"`
	FixedBy   string `json:"fixed_by,omitempty"`
	Line      string `json:"line,omitempty"`
}

func loadFindings() []finding {
	b, err := os.ReadFile(filepath.Join(verifDir, "known_findings.json"))
	if err != nil {
		return nil
	}
	var doc struct {
		Findings []finding `json:"findings"`
	}
	if err := json.Unmarshal(b, &doc); err != nil {
		die(2, "known_findings.json: %v", err)
	}
	return doc.Findings
}

func openFindings() []string {
	if v, ok := os.LookupEnv("VP_OPEN_OVERRIDE"); ok { // development: choose which findings the generators avoid
		if v == "" {
			return nil
		}
		return strings.Split(v, ",")
	}
	seen := map[string]bool{}
	var ids []string
	for _, f := range loadFindings() {
		base := f.ID
		if parts := strings.SplitN(base, "-", 3); len(parts) == 3 { // F-C-mixed -> F-C
			base = parts[0] + "-" + parts[1]
		}
		if f.Status == "open" && !seen[base] {
			seen[base] = true
			ids = append(ids, base)
		}
	}
	sort.Strings(ids)
	return ids
}

// ---------------------------------------------------------------- check

type campaign struct {
	lines      []string
	violations int
	infra      int
	merged     *merged
}

func tierTotals(b budget, tier string) (total int, shrink string) {
	total, shrink = b.Quick, "45s"
	if tier == "thorough" {
		total, shrink = b.Thorough, "3m"
	}
	if v := os.Getenv("VP_CHECKS"); v != "" {
		total, _ = strconv.Atoi(v)
	}
	return
}

func shardCount(total int) (nshards, per int) {
	nshards = 16
	if v := os.Getenv("VP_SHARDS"); v != "" {
		nshards, _ = strconv.Atoi(v)
	}
	if total < nshards {
		nshards = total
	}
	if nshards < 1 {
		nshards = 1
	}
	per = (total + nshards - 1) / nshards
	return
}

// runRapidCampaign runs the known-findings/corpus tier and then the sharded rapid campaign of a static or
// clifs property. harnessProp is the VP_PROP the harness binary is told (C08's static half is "C08s").
func runRapidCampaign(s *session, c *campaign, harness, prop, harnessProp string, total int, shrink string, tag string) {
	bin := s.buildHarness(harness)
	env := s.harnessEnv(harnessProp)
	nshards, per := shardCount(total)

	kfLines, kfViol, kfInfra := runKnownAndCorpus(s, bin, env, prop, harness)
	c.lines = append(c.lines, kfLines...)
	c.violations += kfViol
	c.infra += kfInfra

	results := make([]*shardResult, nshards)
	var wg sync.WaitGroup
	for i := 0; i < nshards; i++ {
		wg.Add(1)
		go func(i int) {
			defer wg.Done()
			dir := filepath.Join(s.scratch, fmt.Sprintf("%ss%d", tag, i))
			_ = os.MkdirAll(dir, 0o755)
			cmd := exec.Command(bin, "-test.run", "^"+testName(harness)+"$", "-test.timeout", "0", "-test.count", "1",
				"-rapid.checks", strconv.Itoa(per), "-rapid.seed", strconv.FormatUint(shardSeed(harnessProp, i), 10),
				"-rapid.shrinktime", shrink, "-rapid.nofailfile")
			cmd.Dir = dir
			cmd.Env = append(append([]string{}, env...), "VP_SHARD="+strconv.Itoa(i), "VP_SHARD_DIR="+dir)
			out, err := cmd.CombinedOutput()
			r := &shardResult{idx: i, out: string(out), err: err, dir: dir}
			if sb, e := os.ReadFile(filepath.Join(dir, "stats.json")); e == nil {
				_ = json.Unmarshal(sb, &r.stats)
			}
			results[i] = r
		}(i)
	}
	wg.Wait()

	for _, r := range results {
		if r.stats == nil {
			c.infra++
			c.lines = append(c.lines, fmt.Sprintf("INFRA shard %d produced no stats: %v\n%s", r.idx, r.err, tail(r.out, 30)))
			continue
		}
		c.merged.add(r.stats)
		failDir := filepath.Join(r.dir, "fail")
		if _, err := os.Stat(filepath.Join(failDir, "case.json")); err == nil {
			// the saved case names the harness property; the replay must be filed under the claimed one
			hash := caseHash(failDir)
			dst := filepath.Join(verifDir, "replays", prop+"-"+hash)
			_ = os.RemoveAll(dst)
			_ = os.MkdirAll(filepath.Dir(dst), 0o755)
			if out, err := run("/", nil, "cp", "-a", failDir, dst); err != nil {
				c.lines = append(c.lines, "INFRA copying replay: "+out)
				c.infra++
			}
			msg := readViolationMsg(failDir)
			c.violations++
			c.lines = append(c.lines, fmt.Sprintf("VIOLATION property=%s replay=%s", prop, dst))
			c.lines = append(c.lines, "  "+msg)
		} else if r.err != nil {
			c.infra++
			c.lines = append(c.lines, fmt.Sprintf("INFRA shard %d failed without a saved case: %v\n%s\n...\n%s", r.idx, r.err, grepLines(r.out, "panic", 12), tail(r.out, 40)))
		} else if !strings.Contains(r.out, "PASS") {
			c.infra++
			c.lines = append(c.lines, fmt.Sprintf("INFRA shard %d: unexpected output\n%s", r.idx, tail(r.out, 20)))
		}
	}
}

func (c *campaign) finish(s *session, prop, tier string, b budget) int {
	m := c.merged
	if m.disagreements > 0 {
		c.infra++
		c.lines = append(c.lines, fmt.Sprintf("INFRA %d ground-truth disagreements (harness type-check vs. go vet); see evidence", m.disagreements))
	}
	if m.evaluations > 0 && m.invalid*100 > m.evaluations+m.invalid {
		c.infra++
		c.lines = append(c.lines, fmt.Sprintf("INFRA invalid-world rate too high: %d invalid vs %d evaluated", m.invalid, m.evaluations))
	}
	writeEvidence(prop, tier, b, m, c.violations, time.Since(s.t0).Seconds())
	for _, l := range c.lines {
		fmt.Println(l)
	}
	fmt.Printf("%s %s: evaluations=%d distinct_nontrivial=%d invalid_worlds=%d violations=%d wall=%.1fs\n", prop, tier, m.evaluations,
		len(m.nontrivial), m.invalid, c.violations, time.Since(s.t0).Seconds())
	if c.violations > 0 {
		return 1
	}
	if c.infra > 0 {
		return 2
	}
	return 0
}

func check(prop, tier string) int {
	b, ok := budgets[prop]
	if !ok {
		die(2, "unknown property %s", prop)
	}
	s := newSession()
	defer s.cleanup()
	s.buildMoq()
	s.goCache()
	os.Setenv("VP_TIER_INTERNAL", tier)
	c := &campaign{merged: newMerged()}
	total, shrink := tierTotals(b, tier)
	if b.Harness == "exec" {
		if prop == "C08" {
			// static half: Reset* methods exist exactly when -with-resets is given
			runRapidCampaign(s, c, "static", prop, "C08s", b.StaticQuickOrThorough(tier), shrink, "st")
		}
		execCampaign(s, c, prop, tier, total)
		return c.finish(s, prop, tier, b)
	}
	runRapidCampaign(s, c, b.Harness, prop, prop, total, shrink, "")
	return c.finish(s, prop, tier, b)
}

func testName(h string) string {
	switch h {
	case "static":
		return "TestStatic"
	case "clifs":
		return "TestCli"
	}
	return "TestExec"
}

func tail(s string, n int) string {
	lines := strings.Split(strings.TrimRight(s, "\n"), "\n")
	if len(lines) > n {
		lines = lines[len(lines)-n:]
	}
	return strings.Join(lines, "\n")
}

func caseHash(dir string) string {
	b, _ := os.ReadFile(filepath.Join(dir, "case.json"))
	return fmt.Sprintf("%016x", splitmix(uint64(len(b))*31+hashBytes(b)))
}

func hashBytes(b []byte) uint64 {
	var h uint64 = 1469598103934665603
	for _, c := range b {
		h ^= uint64(c)
		h *= 1099511628211
	}
	return h
}

func readViolationMsg(dir string) string {
	b, _ := os.ReadFile(filepath.Join(dir, "violation.json"))
	var v struct {
		Oracle string `json:"oracle"`
		Msg    string `json:"msg"`
	}
	_ = json.Unmarshal(b, &v)
	m := v.Oracle + ": " + v.Msg
	if len(m) > 600 {
		m = m[:600] + "..."
	}
	return m
}

// runKnownAndCorpus replays the listed findings (each must still fail the same way -> KNOWN-FINDING line)
// and the saved corpus of the property (each must pass).
func runKnownAndCorpus(s *session, bin string, env []string, prop string, harness string) (lines []string, viol, infra int) {
	replayOne := func(path string) (map[string]any, string) {
		dir, _ := os.MkdirTemp(s.scratch, "r.")
		outFile := filepath.Join(dir, "out.json")
		cmd := exec.Command(bin, "-test.run", "^TestReplay$", "-test.count", "1", "-test.timeout", "10m")
		cmd.Dir = dir
		cmd.Env = append(append([]string{}, env...), "VP_SHARD=r", "VP_SHARD_DIR="+dir, "VP_REPLAY="+path, "VP_REPLAY_OUT="+outFile, "VP_OPEN=")
		out, _ := cmd.CombinedOutput()
		var res map[string]any
		if b, err := os.ReadFile(outFile); err == nil {
			_ = json.Unmarshal(b, &res)
		}
		return res, string(out)
	}
	for _, f := range loadFindings() {
		if f.Property != prop || f.Replay == "" {
			continue
		}
		path := filepath.Join(verifDir, f.Replay)
		res, out := replayOne(path)
		if res == nil {
			infra++
			lines = append(lines, fmt.Sprintf("INFRA replay of %s produced no result\n%s", f.ID, tail(out, 15)))
			continue
		}
		vs, _ := res["violations"].([]any)
		failing := false
		for _, v := range vs {
			m, _ := v.(map[string]any)
			if f.Oracle == "" || m["oracle"] == f.Oracle {
				failing = true
			}
		}
		switch {
		case f.Status == "open" && failing:
			lines = append(lines, fmt.Sprintf("KNOWN-FINDING: property=%s %s %s", prop, f.ID, f.Title))
		case f.Status == "open" && !failing:
			lines = append(lines, fmt.Sprintf("note: known finding %s no longer reproduces (repaired?)", f.ID))
		case f.Status == "fixed" && failing:
			viol++
			lines = append(lines, fmt.Sprintf("VIOLATION property=%s replay=%s", prop, path))
			lines = append(lines, fmt.Sprintf("  fixed finding %s is back: %v", f.ID, vs))
		}
	}
	corpus, _ := filepath.Glob(filepath.Join(verifDir, "corpus", prop, "*"))
	sort.Strings(corpus)
	for _, path := range corpus {
		res, out := replayOne(path)
		if res == nil {
			infra++
			lines = append(lines, fmt.Sprintf("INFRA corpus replay %s produced no result\n%s", path, tail(out, 15)))
			continue
		}
		if vs, _ := res["violations"].([]any); len(vs) > 0 {
			viol++
			lines = append(lines, fmt.Sprintf("VIOLATION property=%s replay=%s", prop, path))
			lines = append(lines, fmt.Sprintf("  %v", vs))
		}
	}
	return
}

func replay(path string) int {
	abs, _ := filepath.Abs(path)
	b, err := os.ReadFile(filepath.Join(abs, "case.json"))
	if err != nil {
		die(2, "replay: %v", err)
	}
	var c struct {
		Prop string `json:"property"`
	}
	_ = json.Unmarshal(b, &c)
	bd, ok := budgets[c.Prop]
	if !ok {
		die(2, "replay: unknown property %q", c.Prop)
	}
	s := newSession()
	defer s.cleanup()
	s.buildMoq()
	s.goCache()
	if bd.Harness == "exec" {
		rc, msg := execReplay(s, abs, "0")
		fmt.Println(msg)
		switch rc {
		case 1:
			fmt.Printf("VIOLATION property=%s replay=%s\n", c.Prop, abs)
		case 0:
			fmt.Println("ok: no violation on replay")
		}
		return rc
	}
	bin := s.buildHarness(bd.Harness)
	env := s.harnessEnv(c.Prop)
	dir, _ := os.MkdirTemp(s.scratch, "r.")
	outFile := filepath.Join(dir, "out.json")
	cmd := exec.Command(bin, "-test.run", "^TestReplay$", "-test.count", "1", "-test.timeout", "10m")
	cmd.Dir = dir
	cmd.Env = append(env, "VP_SHARD=r", "VP_SHARD_DIR="+dir, "VP_REPLAY="+abs, "VP_REPLAY_OUT="+outFile, "VP_OPEN=")
	out, _ := cmd.CombinedOutput()
	rb, err := os.ReadFile(outFile)
	if err != nil {
		fmt.Println(string(out))
		return 2
	}
	var res map[string]any
	_ = json.Unmarshal(rb, &res)
	fmt.Println(string(rb))
	if vs, _ := res["violations"].([]any); len(vs) > 0 {
		fmt.Printf("VIOLATION property=%s replay=%s\n", c.Prop, abs)
		return 1
	}
	fmt.Println("ok: no violation on replay")
	return 0
}

// grepLines returns the first line containing pat and the n lines after it.
func grepLines(out, pat string, n int) string {
	lines := strings.Split(out, "\n")
	for i, l := range lines {
		if strings.Contains(l, pat) {
			j := i + n
			if j > len(lines) {
				j = len(lines)
			}
			return strings.Join(lines[i:j], "\n")
		}
	}
	return ""
}
