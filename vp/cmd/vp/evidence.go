package main

import (
	"encoding/json"
	"os"
	"path/filepath"
	"sort"
)

type merged struct {
	evaluations   int
	nontrivial    map[string]bool
	labels        map[string]int
	notes         map[string]int
	excl          map[string]int
	invalid       int
	invalidSamp   []any
	samples       []any
	disagreements int
	disagreeSamp  []any
	confirmed     int
	extra         map[string]any
}

func newMerged() *merged {
	return &merged{nontrivial: map[string]bool{}, labels: map[string]int{}, notes: map[string]int{}, excl: map[string]int{}, extra: map[string]any{}}
}

func num(v any) int {
	if f, ok := v.(float64); ok {
		return int(f)
	}
	return 0
}

func addMap(dst map[string]int, v any) {
	m, _ := v.(map[string]any)
	for k, x := range m {
		dst[k] += num(x)
	}
}

func (m *merged) add(st map[string]any) {
	m.evaluations += num(st["evaluations"])
	if hs, ok := st["nontrivial_hashes"].([]any); ok {
		for _, h := range hs {
			if s, ok := h.(string); ok {
				m.nontrivial[s] = true
			}
		}
	}
	addMap(m.labels, st["labels"])
	addMap(m.notes, st["notes"])
	addMap(m.excl, st["excluded_known"])
	m.invalid += num(st["invalid_worlds"])
	if s, ok := st["invalid_samples"].([]any); ok && len(m.invalidSamp) < 3 {
		m.invalidSamp = append(m.invalidSamp, s...)
	}
	if s, ok := st["samples"].([]any); ok {
		for _, x := range s {
			if len(m.samples) < 6 {
				m.samples = append(m.samples, x)
			}
		}
	}
	m.disagreements += num(st["disagreements"])
	if s, ok := st["disagreement_samples"].([]any); ok && len(m.disagreeSamp) < 3 {
		m.disagreeSamp = append(m.disagreeSamp, s...)
	}
	m.confirmed += num(st["confirmed_by_toolchain"])
	if ex, ok := st["extra"].(map[string]any); ok {
		for k, v := range ex {
			if f, ok := v.(float64); ok {
				old, _ := m.extra[k].(float64)
				m.extra[k] = old + f
			} else if _, seen := m.extra[k]; !seen {
				m.extra[k] = v
			}
		}
	}
}

func sortedCounts(m map[string]int) map[string]int { return m }

func writeEvidence(prop, tier string, b budget, m *merged, violations int, wall float64) {
	if m.samples == nil {
		m.samples = []any{}
	}
	cov := map[string]any{
		"evaluations":                       m.evaluations,
		"distinct_nontrivial":               len(m.nontrivial),
		"rule":                              b.Rule,
		"samples":                           m.samples,
		"class_histogram":                   m.labels,
		"counters":                          m.notes,
		"excluded_known":                    m.excl,
		"invalid_worlds":                    m.invalid,
		"disagreements_checked":             m.disagreements,
		"violations_confirmed_by_toolchain": m.confirmed,
	}
	if len(m.invalidSamp) > 0 {
		cov["invalid_world_samples"] = m.invalidSamp
	}
	if len(m.disagreeSamp) > 0 {
		cov["disagreement_samples"] = m.disagreeSamp
	}
	keys := make([]string, 0, len(m.extra))
	for k := range m.extra {
		keys = append(keys, k)
	}
	sort.Strings(keys)
	for _, k := range keys {
		cov[k] = m.extra[k]
	}
	ev := map[string]any{
		"property_id": prop,
		"tier":        tier,
		"seed":        int64(seedBase()),
		"level":       b.Level,
		"coverage":    cov,
		"assumptions": []string{
			"go/parser, go/types, go/format of the go1.24.0 toolchain are correct",
			"the world generator only emits loadable, type-correct packages (invalid ones are counted, never judged)",
			"known findings listed in known_findings.json are excluded by construction (see excluded_known)",
		},
		"wall_s":     wall,
		"violations": violations,
	}
	out, _ := json.MarshalIndent(ev, "", " ")
	// evidence describes the tree the registered commands run on; runs against another tree (seeded changes,
	// VERIF_REPO) write theirs elsewhere so that /verif/evidence never describes a modified moq
	dir := filepath.Join(verifDir, "evidence")
	if d := os.Getenv("VP_EVIDENCE_DIR"); d != "" {
		dir = d
	}
	_ = os.MkdirAll(dir, 0o755)
	_ = os.WriteFile(filepath.Join(dir, prop+".json"), out, 0o644)
}
