#!/bin/sh
# tools/thorough_all.sh [props...]: run the thorough tier of every (or the given) claimed check on the unchanged tree
HERE=$(cd "$(dirname "$0")/.." && pwd)
cd "$HERE"
[ -n "${VP_RUN_REPO:-}" ] && export VERIF_REPO="$VP_RUN_REPO"
props="$*"
[ -z "$props" ] && props=$(python3 -c "import json;print(' '.join(c['property_id'] for c in json.load(open('MANIFEST.json'))['checks']))")
for p in $props; do
  out=$(./check $p thorough 2>&1); rc=$?
  echo "$p rc=$rc $(echo "$out" | tail -1)"
  if [ $rc -ne 0 ]; then echo "$out" | grep -E "^(VIOLATION|INFRA|  )" | head -8 | cut -c1-600; fi
done
