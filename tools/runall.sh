#!/bin/sh
# development helper: run the quick tier of all claimed checks sequentially, summarise
tier=${1:-quick}
for p in $(python3 -c "import json;print(' '.join(c['property_id'] for c in json.load(open('/verif/MANIFEST.json'))['checks']))"); do
  out=$(./check $p $tier 2>&1); rc=$?
  echo "== $p rc=$rc $(echo "$out" | tail -1)"
  echo "$out" | grep -E "^(VIOLATION|KNOWN-FINDING|INFRA|  )" | cut -c1-400
done
