#!/bin/sh
# run every seeded change against the quick check of its target property, N at a time (default 2); no re-confirmation
HERE=$(cd "$(dirname "$0")/.." && pwd)
cd "$HERE"
N=${1:-2}
ls seeded | xargs -P "$N" -I{} sh -c 'tools/seed_matrix.sh {} 2>&1 | grep -E "^seed" | cut -c1-220'
