#!/bin/sh
# tools/run_seed.sh <seed-id> <tier> <prop>...: apply a seeded change to /repo, run the given checks, always undo it.
id=$1; tier=$2; shift 2
cd /verif
if [ -n "$(git -C /repo status --porcelain)" ]; then echo "/repo not clean"; exit 2; fi
git -C /repo apply /verif/seeded/$id/patch.diff || exit 2
trap 'git -C /repo checkout -- . ; git -C /repo clean -fdq' EXIT INT TERM
for p in "$@"; do
  out=$(./check $p $tier 2>&1); rc=$?
  echo "seed=$id check=$p rc=$rc $(echo "$out" | tail -1)"
  echo "$out" | grep -E "^(VIOLATION|INFRA|  )" | head -6 | cut -c1-300
done
