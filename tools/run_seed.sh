#!/bin/sh
# tools/run_seed.sh <seed-id> <tier> <prop>...: apply a seeded change in a scratch worktree of /repo HEAD (never in
# /repo itself), run the given checks against it (VERIF_REPO), remove the worktree.
id=$1; tier=$2; shift 2
HERE=$(cd "$(dirname "$0")/.." && pwd)
cd "$HERE"
wt=/tmp/seedrun.$$
git -C /repo worktree add -q --detach $wt HEAD || exit 2
trap 'git -C /repo worktree remove --force $wt >/dev/null 2>&1' EXIT INT TERM
(cd $wt && git apply "$HERE/seeded/$id/patch.diff") || { echo "seed=$id does not apply"; exit 2; }
for p in "$@"; do
  out=$(VERIF_REPO=$wt VP_EVIDENCE_DIR=/var/tmp/vp-seed-evidence ./check $p $tier 2>&1); rc=$?
  orc=$(echo "$out" | grep -A1 "^VIOLATION" | grep "^  " | head -1 | sed 's/^  *//' | cut -d: -f1 | cut -c1-60)
  echo "seed=$id check=$p rc=$rc oracle=[$orc] $(echo "$out" | tail -1)"
  echo "$out" | grep -E "^(VIOLATION|INFRA|  )" | head -6 | cut -c1-300
done
