#!/usr/bin/env python3
"""Regenerates /verif/MANIFEST.json from the table below (kept in one place so it stays valid)."""
import json
props=[json.loads(l)['id'] for l in open('/verif/properties.jsonl')]
S="go/parser + go/types + go/format of the go1.24.0 toolchain; rapid v1.3.0; the world generator emits only loadable, type-correct packages (invalid ones are counted and skipped); known findings (known_findings.json) are excluded by construction and replayed separately"
claimed={
 "C01":("exploration","rapid-generated Go packages x flag combinations; moq CLI subprocess; oracle: zero go/types errors of the output in its destination package, every reported failure re-confirmed by the real toolchain (go vet)","property-based testing (rapid): generated worlds, go/types compile oracle + go vet ground truth","5/C01"),
 "C02":("exploration","oracle: types.Identical method signatures both ways, exact method set of *Mock, one MFunc field per method with identical func type, AssignableTo - evaluated on go/types' view of the world, independent of the self-check line","property-based testing (rapid): generated worlds, go/types method-set oracle","5/C02"),
 "C09":("exploration","oracle: same number of type parameters, constraints identical after renaming, differential types.Instantiate (accept/reject must agree for a pool of type-argument tuples), C02's oracle per accepted instance, call records mirror the parameters, self-check line valid","property-based testing (rapid): differential instantiation against go/types","5/C09"),
 "C10":("exploration","oracle: no self-import and no qualified source types in place; every source type qualified elsewhere; with -skip-ensure the source package is imported iff the harness's own walk of the world's signatures finds a source type","property-based testing (rapid): generated destinations x flags, go/types resolution oracle","5/C10"),
 "C11":("exploration","oracle over the AST + types.Info of the output: every import once, used, no dot/blank/vendor path, sync iff some mock has a method, qualifiers valid and unique, unresolved qualifiers, source alias kept when it provably conflicts with nothing","property-based testing (rapid): colliding import-path grammar, import-block validity oracle","5/C11"),
 "C12":("exploration","oracle per generated method: identifiers valid/distinct/not reserved/not an import qualifier used by the method, record fields distinct and as many as parameters, types.Info.Uses shows no capture of nil/append/panic/receiver/type names","property-based testing (rapid): adversarial name pools, scope-resolution oracle","5/C12"),
 "C13":("exploration","independent naming model (own initialism table, type-derived names) asserted only in provably collision-free contexts; record-field rule asserted for every parameter","property-based testing (rapid): model-based naming oracle","5/C13"),
 "C14":("exploration","metamorphic: the same command line run 4 (thorough 8) times as separate processes plus twice in-process through the public library API must give byte-identical output / identical exit status","property-based testing (rapid): repetition metamorphic relation","5/C14"),
 "C16":("exploration","metamorphic across formatters: default == gofmt == go/format fixed point; marker line; gofmt(noop output) == default; goimports output has the same import path set and declaration-by-declaration the same printed declarations","property-based testing (rapid): formatter metamorphic relations with go/format as reference","5/C16"),
 "C19":("exploration","every moq run under a watchdog: exit status in {0,1}, no Go runtime crash signature on stderr, non-empty diagnostic on failure, and for injected hostile arguments the documented diagnostic naming the culprit","property-based testing (rapid): hostile inputs, crash/diagnostic classifier","5/C19"),
 "C20":("exploration","declared struct types are exactly the requested mock names in argument order, nothing else declared; differential: each mock's fields/method set/signatures (as types, full-path qualified, names stripped) equal between the joint run and a solo run","property-based testing (rapid): joint-vs-solo differential","5/C20"),
}
import os
extra=json.load(open('/verif/tools/manifest_extra.json')) if os.path.exists('/verif/tools/manifest_extra.json') else {}
for k,v in extra.items(): claimed[k]=tuple(v)
checks=[]
for pid,(level,text,tech,ref) in sorted(claimed.items()):
    checks.append({"property_id":pid,"quick_cmd":"./check %s quick"%pid,"thorough_cmd":"./check %s thorough"%pid,
      "evidence_file":"evidence/%s.json"%pid,"replay_cmd_template":"./check replay {path}","engine":"vp",
      "level_claimed":{"category":level,"text":text,"design_ref":"DESIGN.md section "+ref},
      "level_note":S,"technique":tech})
m={"version":1,"setup_cmd":"./check setup",
 "hooks":{"guard":"verif","enable":"go build -tags verif (no guarded code exists: every check drives the CLI binary, the public pkg/moq API and the generated mocks only)","baseline_off_cmd":"cd /repo && go test -vet=off -count=1 ./...","source_commits":[],"add_only":True},
 "engines":[{"name":"vp","path":"vp/","serves_properties":sorted(claimed),"kind_free_text":"Go driver + rapid-based harnesses (static pipeline, CLI state machine, execution harness) sharded over 16 processes"}],
 "checks":checks,
 "not_applicable":[{"property_id":p,"reason":"harness for this property is still under construction in this round; not claimed yet"} for p in props if p not in claimed],
 "notes":"VERIF_SEED selects the rapid seeds (default 1). Exit 0 = held (KNOWN-FINDING lines possible), 1 = VIOLATION line printed, 2 = inconclusive/infrastructure."}
json.dump(m,open('/verif/MANIFEST.json','w'),indent=1)
print(len(checks),"checks")
