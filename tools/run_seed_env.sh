#!/bin/sh
# like run_seed.sh but passes extra environment (first argument, e.g. "VP_CHECKS=16") to the check
envs=$1; id=$2; tier=$3; shift 3
cd /verif
if [ -n "$(git -C /repo status --porcelain)" ]; then echo "/repo not clean"; exit 2; fi
git -C /repo apply /verif/seeded/$id/patch.diff || exit 2
trap 'git -C /repo checkout -- . ; git -C /repo clean -fdq' EXIT INT TERM
for p in "$@"; do
  out=$(env $envs ./check $p $tier 2>&1); rc=$?
  echo "seed=$id check=$p rc=$rc $(echo "$out" | tail -1)"
  echo "$out" | grep -E "^(VIOLATION|INFRA|  )" | head -6 | cut -c1-400
done
