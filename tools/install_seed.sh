#!/bin/sh
# tools/install_seed.sh <wave-description> <id>...: confirm /tmp/seed/out/<id> and copy it to seeded/<id> with a meta.json
HERE=$(cd "$(dirname "$0")/.." && pwd)
desc=$1; shift
for id in "$@"; do
  res=$(sh "$HERE/tools/confirm_seed.sh" /tmp/seed/out/$id 2>&1 | grep -v WARNING | tail -1)
  echo "$res"
  case "$res" in
    *"applies=yes builds=yes other_test_failures=0 demo_patched_rc=1 demo_clean_rc=0"*) ;;
    *) echo "  NOT installed: $id"; continue;;
  esac
  rm -rf "$HERE/seeded/$id"; cp -r /tmp/seed/out/$id "$HERE/seeded/$id"
  python3 - "$id" "$desc" "$HERE" <<'PY'
import json,sys
id,desc,here=sys.argv[1:4]
json.dump({"id":id,"breaks_property":id.split('-')[0],"source":"independent sub-agent ("+desc+") given only the property text and a scratch worktree","needs_to_manifest":"see README.md (written by the sub-agent)","confirmed":{"by":"tools/confirm_seed.sh in a scratch worktree of /repo HEAD","applies":True,"builds":True,"baseline_suite":"only TestGoGenerateVendoredPackages fails (as on the pristine tree)","demo_with_patch":"exit 1","demo_without_patch":"exit 0"}},open(f"{here}/seeded/{id}/meta.json","w"),indent=1)
PY
done
