#!/bin/sh
# confirm every seeded change against /repo HEAD, then run the quick check of its target property against it
HERE=$(cd "$(dirname "$0")/.." && pwd)
cd "$HERE"
for id in $(ls seeded); do
  tools/confirm_seed.sh "$HERE/seeded/$id" 2>&1 | grep -v WARNING | tail -1
  tools/seed_matrix.sh $id 2>&1 | grep -v WARNING | grep -E "^seed" | cut -c1-220
done
