#!/usr/bin/env python3
"""Writes the replay inputs of the open known findings to /verif/known/<id>/case.json (hand-minimised worlds)."""
import json, os
GOMOD = "module example.com/w\n\ngo 1.24\n"
def case(fid, prop, oracle, src, cfg, extra=None, note=""):
    files = {"go.mod": GOMOD, "src/a_src.go": src}
    files.update(extra or {})
    c = {"property": prop, "oracle": oracle, "mod_path": "example.com/w", "files": files, "src_dir": "src",
         "src_path": "example.com/w/src", "src_name": "src", "config": cfg, "note": note, "labels": ["known:" + fid]}
    d = "/verif/known/" + fid
    os.makedirs(d, exist_ok=True)
    json.dump(c, open(d + "/case.json", "w"), indent=1)
def cfg(args, **kw):
    c = {"dest_kind": "implicit", "args": args, "invoke": "srcdot"}
    c.update(kw)
    return c

case("F-N", "C16", "goimports-same-imports",
     "package src\n\nimport \"example.com/w/deps/zzz\"\n\ntype Doer interface {\n\tDo(v yaml.Node) error\n}\n", cfg(["Doer"], invoke="foreignabs"),
     extra={"deps/zzz/zzz.go": "package yaml\n\ntype Node struct{ A int }\n"},
     note="goimports run from a cwd outside the module cannot resolve package yaml in directory zzz and removes the import")

def gopath_case(fid, prop, oracle, files, cfg_, note):
    c = {"property": prop, "oracle": oracle, "mod_path": "example.com/w", "gopath": True, "files": files, "src_dir": "src",
         "src_path": "example.com/w/src", "src_name": "src", "config": cfg_, "note": note, "labels": ["known:" + fid]}
    d = "/verif/known/" + fid
    os.makedirs(d, exist_ok=True)
    json.dump(c, open(d + "/case.json", "w"), indent=1)


def fcase(fid, prop, oracle, files, cfg_, scenario, note):
    c = {"property": prop, "oracle": oracle, "mod_path": "example.com/w", "files": files, "src_dir": "src",
         "src_path": "example.com/w/src", "src_name": "src", "config": cfg_, "note": note, "labels": ["known:" + fid], "scenario": scenario}
    d = "/verif/known/" + fid
    os.makedirs(d, exist_ok=True)
    json.dump(c, open(d + "/case.json", "w"), indent=1)

fcase("F-J", "C17", "out-untouched",
      {"go.mod": GOMOD, "src/a_src.go": "package src\n\ntype Doer interface {\n\tDo(a, b, c string, n int) (string, error)\n\tMore(x []byte) error\n}\n"},
      cfg(["Doer"]), {"kind": "fault", "fault": "fsize", "prior": "good", "out_rel": "src/mock_gen.go", "fsize_blocks": 1},
      "RLIMIT_FSIZE of 512 bytes: os.WriteFile truncates the existing file and fails after 512 bytes")
print("ok")
