#!/bin/sh
# tools/soak.sh "<seeds>" [tier] [props...]: run checks at several VERIF_SEED values on the unchanged tree; print anything that is not a clean pass
seeds=$1; tier=${2:-quick}; shift; shift
HERE=$(cd "$(dirname "$0")/.." && pwd)
cd "$HERE"
# under `vp run --with-repo` use the snapshot of /repo HEAD, so seeded changes applied to /repo meanwhile do not leak in
[ -n "${VP_RUN_REPO:-}" ] && export VERIF_REPO="$VP_RUN_REPO"
props="$*"
[ -z "$props" ] && props=$(python3 -c "import json;print(' '.join(c['property_id'] for c in json.load(open('MANIFEST.json'))['checks']))")
for s in $seeds; do
  for p in $props; do
    out=$(VERIF_SEED=$s ./check $p $tier 2>&1); rc=$?
    echo "seed=$s $p rc=$rc $(echo "$out" | tail -1)"
    if [ $rc -ne 0 ]; then echo "$out" | grep -E "^(VIOLATION|INFRA|  )" | head -8 | cut -c1-600; fi
  done
done
