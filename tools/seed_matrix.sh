#!/bin/sh
# run each seeded change against the quick check of the property it targets (override per seed in tools/seed_targets.txt)
HERE=$(cd "$(dirname "$0")/.." && pwd)
cd "$HERE"
ids="$*"
[ -z "$ids" ] && ids=$(ls seeded)
for id in $ids; do
  prop=${id%%-*}
  t=$(grep "^$id " tools/seed_targets.txt 2>/dev/null | cut -d' ' -f2-)
  [ -n "$t" ] && prop="$t"
  tools/run_seed.sh $id ${TIER:-quick} $prop
done
