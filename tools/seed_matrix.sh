#!/bin/sh
# run each seeded change against the quick checks of the property it targets (plus C01 as the catch-all)
cd /verif
for id in "$@"; do
  prop=${id%%-*}
  tools/run_seed.sh $id ${TIER:-quick} $prop
done
