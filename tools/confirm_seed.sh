#!/bin/sh
# tools/confirm_seed.sh <seed-dir>: confirm that patch.diff applies to /repo HEAD, builds, keeps the baseline suite green,
# and that demo/run.sh fails with the patch and passes without. Uses a scratch worktree which is removed afterwards.
d=$1; name=$(basename $d)
export GOFLAGS=-mod=mod GOPROXY=off
wt=/tmp/seedcheck.$$
git -C /repo worktree add -q --detach $wt HEAD || exit 2
res="applies=no"
if (cd $wt && git apply $d/patch.diff); then
  res="applies=yes"
  if (cd $wt && go build ./... ) >/dev/null 2>&1; then res="$res builds=yes"; else res="$res builds=NO"; fi
  fails=$(cd $wt && go test -vet=off -count=1 ./... 2>&1 | grep -E "^--- FAIL" | grep -v TestGoGenerateVendoredPackages | wc -l)
  res="$res other_test_failures=$fails"
  (cd $wt && git checkout -q -- pkg/moq/testpackages/modules/go.mod 2>/dev/null)
  sh $d/demo/run.sh $wt >/tmp/seedcheck.$$.patched.log 2>&1; res="$res demo_patched_rc=$?"
  (cd $wt && git checkout -q -- . && git clean -fdq)
  sh $d/demo/run.sh $wt >/tmp/seedcheck.$$.clean.log 2>&1; res="$res demo_clean_rc=$?"
fi
git -C /repo worktree remove --force $wt
rm -f /tmp/seedcheck.$$.*.log
echo "$name: $res"
